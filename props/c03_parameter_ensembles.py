"""C03 — parameter ensembles decompose into individual simulations.

Spaces (all complete products over the stated alphabets):
 T  transform members : every distribution-valued CTF parameter (each of the 25 polar symbols, defocus, semiangle_cutoff
    soft/hard, focal_spread, angular_spread) x 3 distribution kinds (explicit values, uniform, weighted Gaussian) through
    Waves.apply_ctf, and Aperture / TemporalEnvelope / SpatialEnvelope / Aberrations .apply.
 P  pairs             : every pair of parameters from different families at once (multi-axis ensembles).
 B  builders          : Probe(parameter distribution).build(scan), PlaneWave / Probe tilt given as BeamTilt2D (x, y, both)
    and as an N x 2 array, scan positions of Custom / Line / Grid scans; tilt ensembles through a multislice.
 R  reduction         : ensemble_mean=True versus ensemble_mean=False for every reducible pipeline.
Oracle, three separate verdicts:
 (a) member i == the scalar run with value i (times the distribution's amplitude weight w_i where weights are applied
     to the wave function); the ensemble axis metadata lists the values in order (defocus is stored as C10 = -defocus);
 (b) the reduced result == the mean over exactly the flagged axes of the unreduced result;
 (c) the reduced measurement is proportional to sum_i w_i^2 I_i (scalar run i) with one pixel-independent constant.
"""
import itertools

import numpy as np

META = dict(
    engines=["product"],
    technique="exhaustive enumeration of every distribution-valued parameter, parameter pair, distribution kind and scan type; differential oracle against scalar runs",
    text="Every parameter that accepts a distribution (25 aberration symbols, defocus, soft/hard aperture cutoff, focal and angular spread, 4 tilt "
         "representations, 3 scan kinds), with 3 distribution kinds, every cross-family parameter pair, through apply_ctf / transform.apply / "
         "Probe.build / PlaneWave.build / multislice, is compared member by member with the corresponding scalar run; axis metadata values and order "
         "are checked; reductions are checked against the unreduced ensemble and against the weighted sum of scalar runs. 5-member parameter ensembles are evaluated lazily with max_batch 1, 2, 3, auto (all resulting partitions of the parameter axis) against the eager result.",
    note="Bound: 3-sample distributions, 16x12 grid, one or three probe positions. Tolerance 2e-5 of max. The normalisation constant of a reduced "
         "measurement (1/N on this tree) is recorded, not judged: the statement fixes the weights, not the overall factor.",
)
RTOL = 2e-5
E = 100e3
GRID = dict(gpts=(16, 12), extent=(4.0, 3.0))


def symbols():
    from abtem.transfer import polar_symbols

    return list(polar_symbols)


def sym_values(s):
    """three scalar values appropriate for the symbol"""
    if s.startswith("phi"):
        return [0.0, 0.4, -1.1]
    n = int(s[1])
    sc = {1: 60.0, 2: 600.0, 3: 6e4, 4: 6e5, 5: 6e7}[n]
    return [0.5 * sc, 1.0 * sc, -0.7 * sc]


PARAM_VALUES = {"semiangle_cutoff": [12.0, 18.5, 30.0], "focal_spread": [10.0, 40.0, 80.0], "angular_spread": [0.3, 1.0, 2.5], "defocus": [30.0, 60.0, -40.0]}


def values_of(p):
    return PARAM_VALUES[p] if p in PARAM_VALUES else sym_values(p)


def make_dist(p, kind, mean=False):
    """returns (distribution, scalar values, amplitude weights)"""
    import abtem.distributions as D

    v = values_of(p)
    if kind == "values":
        d = D.from_values(v, ensemble_mean=mean)
    elif kind == "uniform":
        d = D.uniform(min(v), max(v), 3, ensemble_mean=mean)
    else:
        c = float(np.mean(v))
        sd = (max(v) - min(v)) / 4 or 1.0
        d = D.gaussian(sd, 3, center=c, ensemble_mean=mean, sampling_limit=2.0)
    return d, [float(x) for x in np.asarray(d.values)], [float(x) for x in np.asarray(d.weights)]


def companion(p):
    """scalar companion coefficients so that the parameter has an effect (an azimuth needs its magnitude, etc.)"""
    if p.startswith("phi"):
        n = int(p[3])
        return {"C" + p[3:]: {1: 60.0, 2: 600.0, 3: 6e4, 4: 6e5, 5: 6e7}[n]}
    if p == "angular_spread":
        return {"C10": 80.0, "C30": 5e4}
    return {}


def check(ctx):
    q = ctx.quick
    S = symbols()
    params = S + ["defocus", "semiangle_cutoff", "focal_spread", "angular_spread"]
    kinds = ["values", "uniform", "gauss"]
    T = []
    for p in params:
        for k in kinds:
            for soft in ((True, False) if p == "semiangle_cutoff" else (True,)):
                T.append({"space": "T", "via": "apply_ctf", "p": p, "kind": k, "soft": soft})
    for via, p in (("Aperture", "semiangle_cutoff"), ("TemporalEnvelope", "focal_spread"), ("SpatialEnvelope", "angular_spread"), ("Aberrations", "C10"),
                   ("Aberrations", "C30"), ("Aberrations", "phi12")):
        for k in kinds:
            T.append({"space": "T", "via": via, "p": p, "kind": k, "soft": True})
    fam = ["C10", "C30", "C12", "phi12", "C23", "semiangle_cutoff", "focal_spread", "angular_spread"] if q else params
    P = []
    for a, b in itertools.combinations(fam, 2):
        if {a, b} == {"C10", "defocus"}:  # two names of ONE coefficient: not a pair of parameters (the later keyword simply wins)
            continue
        if not q and a in S and b in S and not (a in ("C10", "C30", "C12", "phi12") or b in ("C10", "C30", "C12", "phi12")):
            continue
        P.append({"space": "P", "p": a, "p2": b, "kind": "values", "kind2": "gauss" if (len(P) % 2) else "values"})
    B = []
    for p in ["defocus", "C30", "C12", "phi12", "semiangle_cutoff"] + ([] if q else ["C21", "phi21", "C50"]):
        for k in kinds:
            B.append({"space": "B", "what": "probe-param", "p": p, "kind": k})
    for who in ("PlaneWave", "Probe"):
        for rep in ("x", "y", "xy", "nx2"):
            B.append({"space": "B", "what": "tilt", "who": who, "rep": rep, "through": "build"})
            B.append({"space": "B", "what": "tilt", "who": who, "rep": rep, "through": "multislice"})
    for sc in ("custom", "line", "line_ep", "grid", "grid_ep"):
        B.append({"space": "B", "what": "scan", "scan": sc})
    for combo in (["tilt", "C10"], ["tilt", "semiangle_cutoff"], ["C10", "semiangle_cutoff"], ["tilt", "C10", "C12"], ["tilt", "C30", "semiangle_cutoff"]):
        for lazy in (False, True):
            B.append({"space": "B", "what": "probe-multi", "params": combo, "lazy": lazy})
    R = []
    for p in ["defocus", "C30", "C12", "focal_spread", "angular_spread", "semiangle_cutoff"]:
        for k in kinds:
            for via in ("apply_ctf", "probe"):
                if via == "probe" and p in ("focal_spread", "angular_spread"):
                    continue  # not parameters of Probe
                R.append({"space": "R", "p": p, "kind": k, "via": via})
    R.append({"space": "R", "p": "defocus", "kind": "gauss", "via": "apply_ctf", "p2": "C30"})
    # L: the same ensembles evaluated lazily with the parameter axis split into dask blocks of 1, 2, 3 members (5-member distributions)
    L = []
    for p in ["defocus", "C30", "phi12", "semiangle_cutoff", "focal_spread", "angular_spread"] + ([] if q else ["C12", "C21", "C50"]):
        for k in ("values", "gauss"):
            for via in ("apply_ctf",) + (("Aberrations",) if p in ("C30", "phi12") else ()):
                L.append({"space": "L", "p": p, "kind": k, "via": via})
    for who in ("PlaneWave", "Probe"):
        L.append({"space": "L", "p": "tilt", "kind": "values", "via": who})
    ctx.run(L, "run_case", rule="L: 5-member parameter ensembles, lazy with max_batch 1, 2, 3, auto vs eager", space="L lazy partitions")
    ctx.run(T, "run_case", rule="T: (parameter, distribution kind, entry point)", space="T transform members")
    ctx.run(P, "run_case", rule="P: parameter pairs", space="P pairs")
    ctx.run(B, "run_case", rule="B: builder parameters, tilt representations, scans", space="B builders")
    ctx.run(R, "run_case", rule="R: reductions; non-trivial = all (every ensemble has 3 members)", space="R reduction")


# ------------------------------------------------------------------------------------------------------------------
def incident():
    import abtem

    return abtem.Probe(semiangle_cutoff=25, energy=E, **GRID).build(abtem.CustomScan([[1.0, 0.5]]), lazy=False)


def ctf_from(params, soft=True):
    import abtem

    kw = {}
    ab = {}
    for k, v in params.items():
        if k in ("semiangle_cutoff", "focal_spread", "angular_spread"):
            kw[k] = v
        else:
            ab[k] = v
    kw.setdefault("semiangle_cutoff", 20.0)
    return abtem.CTF(energy=E, soft=soft, **kw, **ab)


def transform_from(via, params, soft=True):
    import abtem.transfer as T

    if via == "apply_ctf":
        return ctf_from(params, soft)
    if via == "Aperture":
        return T.Aperture(params["semiangle_cutoff"], soft=soft, energy=E)
    if via == "TemporalEnvelope":
        return T.TemporalEnvelope(params["focal_spread"], energy=E)
    if via == "SpatialEnvelope":
        p = dict(params)
        a = p.pop("angular_spread")
        return T.SpatialEnvelope(a, energy=E, **p)
    if via == "Aberrations":
        return T.Aberrations(energy=E, **params)
    raise KeyError(via)


def apply(via, w, params, soft=True):
    t = transform_from(via, params, soft)
    return w.apply_ctf(t) if via == "apply_ctf" else t.apply(w)


def axis_label(p):
    return "C10" if p == "defocus" else p


def axis_values(p, vals):
    return [-v for v in vals] if p == "defocus" else list(vals)


class V:
    def __init__(self, case):
        self.case, self.viol, self.worst, self.tr = case, [], 0.0, 0

    def bad(self, key, msg):
        if sum(1 for v in self.viol if v["key"] == key) < 2:
            self.viol.append({"key": key, "msg": "%s (%s)" % (msg, self.case)})

    def close(self, got, ref, key, msg, rtol=RTOL):
        from mc.compare import err

        got, ref = np.asarray(got), np.asarray(ref)
        if got.shape != ref.shape:
            self.bad(key, "%s: shape %r vs %r" % (msg, got.shape, ref.shape))
            return False
        e = err(got, ref, rtol, atol=1e-12)
        self.worst = max(self.worst, e)
        if not e <= 1.0:
            self.bad(key, "%s: max|d| = %.3g on max %.3g" % (msg, float(np.abs(got - ref).max()), float(np.abs(ref).max())))
            return False
        return True

    def axis(self, obj, pos, label, values, key):
        axes = obj.ensemble_axes_metadata
        if pos >= len(axes):
            self.bad(key, "no ensemble axis %d" % pos)
            return
        ax = axes[pos]
        got = getattr(ax, "values", None)
        if label is not None and ax.label not in (label, "") :
            self.bad(key + "-label", "axis %d label %r, expected %r" % (pos, ax.label, label))
        if got is None or len(got) != len(values) or any(np.abs(np.asarray(g, float) - np.asarray(v, float)).max() > 1e-5 * max(1.0, np.abs(np.asarray(v, float)).max())
                                                           for g, v in zip(got, values)):
            self.bad(key, "axis %d (%s) values %r, expected %r" % (pos, ax.label, got, values))

    def result(self, obs="ok", nt=True):
        return {"viol": self.viol, "obs": obs if not self.viol else self.viol[0]["key"], "nt": nt, "tr": self.tr, "ref": self.tr, "err": self.worst}


def run_case(c):
    return {"T": run_T, "P": run_P, "B": run_B, "R": run_R, "L": run_L}[c["space"]](c)


def run_L(c):
    """member i of the lazily evaluated, block-partitioned ensemble == member i of the eager one == scalar run i"""
    import abtem
    import abtem.distributions as D

    v = V(c)
    p, via = c["p"], c["via"]
    if p == "tilt":
        pairs = np.array([[0.0, 0.0], [2.0, -1.0], [-3.0, 4.0], [5.0, 5.0], [-1.0, -6.0]])
        pot = abtem.PotentialArray(np.zeros((2, 16, 12), np.float32), slice_thickness=2.0, extent=(4, 3))

        def run(lazy, mb):
            kw = dict(energy=E, tilt=pairs, **GRID)
            b = abtem.PlaneWave(**kw) if via == "PlaneWave" else abtem.Probe(semiangle_cutoff=25, **kw)
            args = {} if via == "PlaneWave" else {"scan": abtem.CustomScan([[1.0, 0.5]])}
            out = b.multislice(pot, lazy=lazy, **({"max_batch": mb} if lazy else {}), **args)
            return np.asarray((out.compute() if lazy else out).array), None
        vals = list(range(5))
    else:
        base = np.asarray(values_of(p), float)
        five = np.linspace(base.min(), base.max(), 5) if base.max() > base.min() else base.min() + np.arange(5.0)
        d = D.from_values(five) if c["kind"] == "values" else D.gaussian((five.max() - five.min()) / 4, 5, center=float(five.mean()), sampling_limit=2.0)
        vals = [float(x) for x in np.asarray(d.values)]
        comp = companion(p)

        def run(lazy, mb):
            w = incident()
            if lazy:
                w = w.ensure_lazy()
                t = transform_from(via, dict(comp, **{p: d}))
                out = w.apply_ctf(t, max_batch=mb) if via == "apply_ctf" else w.apply_transform(t, max_batch=mb)
                chunks = out.array.chunks  # read before compute(), which replaces the dask array in place
                return np.asarray(out.compute().array), chunks
            return np.asarray(apply(via, w, dict(comp, **{p: d})).array), None
    eager, _ = run(False, None)
    v.tr += 1
    seen = set()
    for mb in (1, 2, 3, "auto"):
        try:
            lz, chunks = run(True, mb)
        except Exception as e:  # noqa: BLE001
            v.bad("lazy-partition/raises/%s" % type(e).__name__, "max_batch=%r raised %s: %s" % (mb, type(e).__name__, str(e)[:120]))
            continue
        v.tr += 1
        seen.add(str(chunks[0]) if chunks else "?")
        if lz.shape != eager.shape:
            v.bad("lazy-partition/shape", "max_batch=%r: lazy shape %r, eager %r" % (mb, lz.shape, eager.shape))
            continue
        from mc.compare import err

        per = [err(lz[i], eager[i], RTOL, atol=1e-12) for i in range(len(vals))]
        v.worst = max(v.worst, max(per))
        if max(per) > 1.0:
            v.bad("lazy-partition/members/%s" % ("tilt" if p == "tilt" else via), "max_batch=%r (parameter-axis chunks %r): members %r of the lazy ensemble differ from the eager ones" % (
                mb, chunks[0] if chunks else None, [i for i, e_ in enumerate(per) if e_ > 1.0]))
    return v.result(obs="chunks " + ",".join(sorted(seen)))


def run_T(c):
    v = V(c)
    p, via = c["p"], c["via"]
    d, vals, wts = make_dist(p, c["kind"])
    comp = companion(p)
    w = incident()
    out = apply(via, w, dict(comp, **{p: d}), c["soft"])
    v.tr += 1
    arr = np.asarray(out.array)
    if arr.shape[0] != len(vals):
        v.bad("members/count", "%d members for %d values, shape %r" % (arr.shape[0], len(vals), arr.shape))
        return v.result()
    v.axis(out, 0, axis_label(p), axis_values(p, vals), "axis/values/" + ("weighted" if c["kind"] == "gauss" else "plain"))
    weighted_as_amplitude = via in ("apply_ctf", "Aberrations") and p not in ("semiangle_cutoff", "focal_spread", "angular_spread")
    for i, x in enumerate(vals):
        ref = np.asarray(apply(via, w, dict(comp, **{p: x}), c["soft"]).array)
        v.tr += 1
        scale = wts[i] if (c["kind"] == "gauss" and weighted_as_amplitude) else 1.0
        cls = "aberration" if (p in symbols() or p == "defocus") else p
        if c["kind"] == "gauss" and not weighted_as_amplitude:
            # families that drop the weights: accept member == scalar or member == w * scalar, report which
            if not (np.allclose(arr[i], ref, rtol=0, atol=RTOL * np.abs(ref).max()) or np.allclose(arr[i], wts[i] * ref, rtol=0, atol=RTOL * np.abs(ref).max())):
                v.bad("members/%s/%s" % (cls, via), "member %d (value %r) is neither the scalar run nor weight x scalar run" % (i, x))
            continue
        v.close(arr[i], scale * ref, "members/%s/%s%s" % (cls, via, "" if c["soft"] else "-hard"), "member %d (value %r, weight %.4g) vs scalar run" % (i, x, scale))
    return v.result()


def run_P(c):
    v = V(c)
    p, p2 = c["p"], c["p2"]
    d1, v1, w1 = make_dist(p, c["kind"])
    d2, v2, w2 = make_dist(p2, c["kind2"])
    comp = dict(companion(p), **companion(p2))
    comp.pop(p, None)
    comp.pop(p2, None)
    w = incident()
    out = apply("apply_ctf", w, dict(comp, **{p: d1, p2: d2}))
    v.tr += 1
    arr = np.asarray(out.array)
    labels = [a.label for a in out.ensemble_axes_metadata[:2]]
    # which axis is which: by label (aberration axes are labelled by symbol; aperture/envelope axes by name or '')
    order = None
    for cand in ((p, p2), (p2, p)):
        if all(l in (axis_label(x), "") for l, x in zip(labels, cand)):
            order = cand
            break
    if arr.ndim != 5 or order is None:
        v.bad("pair/axes", "result shape %r axes %r for parameters (%s, %s)" % (arr.shape, labels, p, p2))
        return v.result()
    if labels[0] == labels[1] == "":
        order = None  # ambiguous labels: determine the order from the data below
    vals = {p: v1, p2: v2}
    wts = {p: w1 if c["kind"] == "gauss" else [1.0] * 3, p2: w2 if c["kind2"] == "gauss" else [1.0] * 3}
    amp = lambda x: x not in ("semiangle_cutoff", "focal_spread", "angular_spread")  # noqa: E731
    cands = [order] if order else [(p, p2), (p2, p)]
    best = None
    for a, b in cands:
        worst = 0.0
        ok = True
        for i, j in itertools.product(range(3), range(3)):
            ref = np.asarray(apply("apply_ctf", w, dict(comp, **{a: vals[a][i], b: vals[b][j]})).array)
            v.tr += 1
            scale = (wts[a][i] if amp(a) else 1.0) * (wts[b][j] if amp(b) else 1.0)
            d = float(np.abs(arr[i, j] - scale * ref).max()) / max(float(np.abs(ref).max()) * abs(scale), 1e-30)
            worst = max(worst, d)
        if best is None or worst < best[0]:
            best = (worst, a, b)
    v.worst = best[0] / RTOL
    if not best[0] <= RTOL:
        v.bad("pair/members", "members of the (%s, %s) ensemble differ from the scalar runs by %.3g (relative)" % (best[1], best[2], best[0]))
    else:
        v.axis(out, 0, None, axis_values(best[1], vals[best[1]]), "pair/axis-values")
        v.axis(out, 1, None, axis_values(best[2], vals[best[2]]), "pair/axis-values")
    return v.result()


def tilt_spec(rep):
    import abtem.distributions as D

    xs, ys = [0.0, 3.0, -2.0], [1.5, -4.0]
    if rep == "x":
        return (D.from_values(xs), -2.0), [(x, -2.0) for x in xs], (len(xs),)
    if rep == "y":
        return (1.0, D.from_values(ys)), [(1.0, y) for y in ys], (len(ys),)
    if rep == "xy":
        return (D.from_values(xs), D.from_values(ys)), [(x, y) for x in xs for y in ys], (len(xs), len(ys))
    pairs = [(0.0, 0.0), (3.0, -2.0), (-1.0, 4.0)]
    return np.array(pairs), pairs, (len(pairs),)


def run_B(c):
    import abtem
    from mc import universe as U

    v = V(c)
    if c["what"] == "probe-param":
        p = c["p"]
        d, vals, wts = make_dist(p, c["kind"])
        comp = companion(p)
        kw = dict(comp)
        base = dict(energy=E, **GRID)
        if p != "semiangle_cutoff":
            base["semiangle_cutoff"] = 20.0
        scan = abtem.CustomScan([[1.0, 0.5], [2.2, 1.9]])
        out = abtem.Probe(**base, **kw, **{p: d}).build(scan, lazy=False)
        v.tr += 1
        arr = np.asarray(out.array)
        v.axis(out, 0, axis_label(p), axis_values(p, vals), "probe/axis-values")
        for i, x in enumerate(vals):
            ref = np.asarray(abtem.Probe(**base, **kw, **{p: x}).build(scan, lazy=False).array)
            v.tr += 1
            v.close(arr[i], ref, "probe/members/%s" % ("aberration" if p not in PARAM_VALUES or p == "defocus" else p), "probe member %d (value %r) vs scalar probe" % (i, x))
        return v.result()
    if c["what"] == "probe-multi":
        import abtem.distributions as D

        names = c["params"]
        vals = {"tilt": [0.0, 4.0], "C10": [20.0, 50.0, -30.0], "C12": [10.0, 25.0, 5.0, 40.0], "C30": [1e4, 6e4, 3e4], "semiangle_cutoff": [14.0, 22.0]}

        def make(assign):
            kw = dict(energy=E, **GRID)
            kw["semiangle_cutoff"] = assign.get("semiangle_cutoff", 20.0)
            if "tilt" in assign:
                kw["tilt"] = (assign["tilt"], -2.0)
            for k in ("C10", "C12", "C30"):
                if k in assign:
                    kw[k] = assign[k]
            return abtem.Probe(**kw)

        scan = abtem.CustomScan([[1.0, 0.5], [2.2, 1.9], [0.3, 2.4], [3.1, 0.2], [2.0, 2.0]])
        probe = make({n: D.from_values(vals[n]) for n in names})
        try:
            out = probe.build(scan, lazy=c["lazy"])
            out = out.compute() if c["lazy"] else out
        except Exception as e:  # noqa: BLE001
            v.bad("probe-multi/raises/%s" % ("lazy" if c["lazy"] else "eager"), "Probe with distributions for %r raised %s: %s" % (names, type(e).__name__, str(e)[:120]))
            return v.result()
        v.tr += 1
        arr = np.asarray(out.array)
        labels = [a.label for a in out.ensemble_axes_metadata]
        want_shape = None
        # the axes metadata decides which axis is which parameter
        order = []
        for lab in labels[:-1]:
            order.append({"tilt_x": "tilt"}.get(lab, lab))
        if sorted(order) != sorted(names):
            v.bad("probe-multi/axes", "axes %r for parameters %r" % (labels, names))
            return v.result()
        want_shape = tuple(len(vals[n]) for n in order) + (5,)
        if arr.shape[:-2] != want_shape:
            v.bad("probe-multi/axes-vs-array", "array shape %r does not match the axes metadata %r (expected %r)" % (arr.shape, labels, want_shape))
            return v.result()
        for idx in itertools.product(*[range(len(vals[n])) for n in order]):
            ref = np.asarray(make({n: vals[n][i] for n, i in zip(order, idx)}).build(scan, lazy=False).array)
            v.tr += 1
            v.close(arr[idx], ref, "probe-multi/members", "member %r of the %r ensemble vs scalar probe" % (idx, order))
        return v.result()
    if c["what"] == "tilt":
        spec, members, eshape = tilt_spec(c["rep"])
        pot = U.potential("atoms", gpts=GRID["gpts"])

        def make(tilt):
            if c["who"] == "PlaneWave":
                b = abtem.PlaneWave(energy=E, tilt=tilt, **GRID)
                return b.multislice(pot, lazy=False) if c["through"] == "multislice" else b.build(lazy=False)
            b = abtem.Probe(semiangle_cutoff=20, energy=E, tilt=tilt, **GRID)
            sc = abtem.CustomScan([[1.0, 0.5]])
            return b.multislice(pot, scan=sc, lazy=False) if c["through"] == "multislice" else b.build(sc, lazy=False)

        out = make(spec)
        v.tr += 1
        arr = np.asarray(out.array)
        if arr.shape[: len(eshape)] != eshape:
            v.bad("tilt/shape", "ensemble shape %r, expected %r" % (arr.shape, eshape))
            return v.result()
        flat = arr.reshape((-1,) + arr.shape[len(eshape):])
        for i, t in enumerate(members):
            ref = np.asarray(make(tuple(t)).array)
            v.tr += 1
            v.close(flat[i], ref, "tilt/members/%s/%s" % (c["rep"], c["through"]), "%s tilt member %d %r vs scalar tilt run" % (c["who"], i, t))
        # metadata: the axes list the tilts in order
        axes = [a for a in out.ensemble_axes_metadata if hasattr(a, "tilt")]
        got = []
        if c["rep"] == "nx2" and axes:
            got = [tuple(float(x) for x in t) for t in axes[0].values]
        elif axes:
            per_axis = {a.direction: [float(x) for x in a.values] for a in axes if hasattr(a, "direction")}
            bx, by = out.metadata.get("base_tilt_x", 0.0), out.metadata.get("base_tilt_y", 0.0)
            xs = per_axis.get("x", [bx])
            ys = per_axis.get("y", [by])
            got = [(x, y) for x in xs for y in ys]
        if [tuple(round(x, 6) for x in t) for t in got] != [tuple(round(float(x), 6) for x in t) for t in members]:
            v.bad("tilt/axis-values/%s" % c["rep"], "tilt axes describe %r, members are %r" % (got, members))
        return v.result()
    # scans
    name = c["scan"]
    probe = abtem.Probe(semiangle_cutoff=20, energy=E, C10=40.0, **GRID)
    scan = {"custom": lambda: abtem.CustomScan([[0.0, 0.0], [1.0, 1.25], [2.3, 1.7]]),
            "line": lambda: abtem.LineScan(start=(0.2, 0.1), end=(2.2, 2.1), gpts=3, endpoint=False),
            "line_ep": lambda: abtem.LineScan(start=(0.2, 0.1), end=(2.2, 2.1), gpts=3, endpoint=True),
            "grid": lambda: abtem.GridScan(start=(0, 0), end=(2, 1.5), gpts=(2, 3), endpoint=False),
            "grid_ep": lambda: abtem.GridScan(start=(0, 0), end=(2, 1.5), gpts=(2, 3), endpoint=True)}[name]
    out = probe.build(scan(), lazy=False)
    v.tr += 1
    pos = np.asarray(scan().get_positions()).reshape(-1, 2)
    arr = np.asarray(out.array)
    flat = arr.reshape((-1,) + arr.shape[-2:])
    if flat.shape[0] != len(pos):
        v.bad("scan/count", "%d probes for %d positions" % (flat.shape[0], len(pos)))
        return v.result()
    for i, r in enumerate(pos):
        ref = np.asarray(probe.build(abtem.CustomScan([list(map(float, r))]), lazy=False).array)[0]
        v.tr += 1
        v.close(flat[i], ref, "scan/members/" + name, "probe %d at %r vs single-position build" % (i, r))
    # axis metadata coordinates == positions
    axes = out.ensemble_axes_metadata
    if name == "custom":
        v.axis(out, 0, None, [tuple(p) for p in pos], "scan/axis-values/custom")
    else:
        coords = [np.asarray(a.coordinates(n), float) for a, n in zip(axes, arr.shape[: len(axes)])]
        if name.startswith("line"):
            start = pos[0]
            dist = np.linalg.norm(pos - start, axis=1)
            if len(coords) != 1 or np.abs((coords[0] - coords[0][0]) - dist).max() > 1e-5:
                v.bad("scan/axis-values/line", "line scan axis coordinates %r, distances along the line %r" % (coords, dist))
        else:
            xs = np.unique(np.round(pos[:, 0], 9))
            ys = np.unique(np.round(pos[:, 1], 9))
            if len(coords) != 2 or np.abs(coords[0] - xs).max() > 1e-5 or np.abs(coords[1] - ys).max() > 1e-5:
                v.bad("scan/axis-values/grid", "grid scan axis coordinates %r, positions x %r y %r" % (coords, xs, ys))
    return v.result()


def run_R(c):
    import abtem

    v = V(c)
    p = c["p"]
    out = {}
    vals = wts = None
    for mean in (False, True):
        d, vals, wts = make_dist(p, c["kind"], mean=mean)
        params = {p: d}
        if "p2" in c:
            d2, vals2, wts2 = make_dist(c["p2"], "values", mean=False)
            params[c["p2"]] = d2
        if c["via"] == "apply_ctf":
            w = incident()
            params = dict(companion(p), **params)
            o = w.apply_ctf(ctf_from(params)).diffraction_patterns(max_angle="valid")
            o = o.reduce_ensemble() if hasattr(o, "reduce_ensemble") else o
            o2 = w.apply_ctf(ctf_from(params)).intensity()
            o2 = o2.reduce_ensemble()
            out[mean] = [o, o2]
        else:
            base = dict(energy=E, **GRID)
            if p != "semiangle_cutoff":
                base["semiangle_cutoff"] = 20.0
            pot = abtem.PotentialArray(np.zeros((1,) + GRID["gpts"], np.float32), slice_thickness=1.0, extent=GRID["extent"])
            o = abtem.Probe(**base, **params).multislice(pot, scan=abtem.CustomScan([[1.0, 0.5]]), detectors=abtem.PixelatedDetector(max_angle="valid"), lazy=False)
            out[mean] = [o]
        v.tr += 1
    for k, (full, red) in enumerate(zip(out[False], out[True])):
        fa, ra = np.asarray(full.array), np.asarray(red.array)
        if fa.ndim != ra.ndim + 1:
            v.bad("reduce/axes/%s" % c["via"], "unreduced shape %r, reduced shape %r: expected exactly one axis fewer" % (fa.shape, ra.shape))
            continue
        # (b) reduction consistency: the flagged axis is the parameter's axis (axis 0 for single parameters)
        labels = [a.label for a in full.ensemble_axes_metadata]
        ax = labels.index(axis_label(p)) if axis_label(p) in labels else 0
        v.close(ra, fa.mean(axis=ax), "reduce/consistency/%s" % c["via"], "output %d: ensemble_mean=True vs mean over axis %d of ensemble_mean=False" % (k, ax))
        # (c) weighted mean: proportional to sum_i w_i^2 I_i of the scalar runs
        scal = []
        for x in vals:
            params = dict(companion(p), **{p: x})
            if "p2" in c:
                params[c["p2"]] = make_dist(c["p2"], "values")[0]
            if c["via"] == "apply_ctf":
                w = incident()
                t = w.apply_ctf(ctf_from(params))
                s = t.diffraction_patterns(max_angle="valid") if k == 0 else t.intensity()
            else:
                base = dict(energy=E, **GRID)
                if p != "semiangle_cutoff":
                    base["semiangle_cutoff"] = 20.0
                pot = abtem.PotentialArray(np.zeros((1,) + GRID["gpts"], np.float32), slice_thickness=1.0, extent=GRID["extent"])
                s = abtem.Probe(**base, **params).multislice(pot, scan=abtem.CustomScan([[1.0, 0.5]]), detectors=abtem.PixelatedDetector(max_angle="valid"), lazy=False)
            scal.append(np.asarray(s.array, dtype=np.float64))
            v.tr += 1
        w2 = np.asarray(wts, float) ** 2
        want = sum(wi * si for wi, si in zip(w2, scal))
        if want.shape != ra.shape:
            continue
        const = float((ra * want).sum() / (want * want).sum())
        resid = float(np.abs(ra - const * want).max()) / max(float(np.abs(const * want).max()), 1e-30)
        v.worst = max(v.worst, resid / 1e-4)
        fam = "aberration" if (p in symbols() or p == "defocus") else p
        if not resid <= 1e-4:
            v.bad("reduce/weighted-mean/%s/%s" % (c["via"], fam if c["kind"] == "gauss" else "unit-weights"),
                  "output %d: reduced result is not proportional to sum w_i^2 I_i (residual %.3g, weights^2 %r)" % (k, resid, w2.round(4).tolist()))
    res = v.result()
    return res
