"""C35 — axis metadata behaves like the value sequences it describes.

Space: every concrete axis class of abtem.core.axes (found by introspection, so a new class is picked up) x a field
alphabet (labels, units, tex labels, flags, samplings/offsets, value sequences of ints / floats / pairs / numpy arrays,
lengths 1..5) x every slice (start, stop, step) on the value sequence, every integer index, index lists and boolean
masks x every ordered pair of compatible ordinal axes for concatenation x n in 1..6 for coordinates.
Oracle: Python's own tuple slicing / concatenation and offset + i*sampling.
"""
import dataclasses
import itertools

import numpy as np

META = dict(
    engines=["product"],
    technique="exhaustive enumeration of axis classes x field values x all slices/indices/pairs against Python sequence semantics",
    text="All concrete axis classes (introspected) are instantiated over a field alphabet; dict round trips (axis_to_dict/axis_from_dict "
         "and to_dict/from_dict), every slice (all start/stop/step combinations on lengths <= 5), integer / list / mask indexing, "
         "every compatible concatenation pair and coordinates for n <= 6 are executed and compared field by field with plain tuple "
         "operations and offset + i*sampling.",
    note="Bound: value sequences of length <= 5, the field alphabet. Equality after a round trip is checked both with abTEM's == and "
         "with a strict field-by-field comparison.",
)


def axis_classes():
    from abtem.core import axes as A

    out = []
    for name in sorted(dir(A)):
        c = getattr(A, name)
        if isinstance(c, type) and issubclass(c, A.AxisMetadata) and dataclasses.is_dataclass(c):
            out.append(name)
    return out


VALUE_SETS = {
    "ints": [0, 1, 2, 3, 4],
    "floats": [0.5, -1.25, 3.0, 7.75, 2.5],
    "pairs": [[0.0, 1.0], [2.5, -1.0], [3.0, 3.0], [-4.0, 0.5], [9.0, 8.0]],
    "np1d": "np1d",
    "np2d": "np2d",
}
COMMON = [
    {},
    {"label": "x", "units": "mrad", "tex_label": "$x$"},
    {"label": "q", "_ensemble_mean": True, "_squeeze": True},
    {"label": "n", "units": None, "tex_label": None},  # optional fields explicitly None (several classes default them to a string)
]
LINEAR = [{"sampling": 1.0, "offset": 0.0}, {"sampling": 0.37, "offset": 1.5}, {"sampling": 2.5, "offset": -2.5}]


def build(case):
    from abtem.core import axes as A

    cls = getattr(A, case["cls"])
    kw = dict(case["common"])
    if case.get("linear") is not None:
        kw.update(case["linear"])
    if case.get("values") is not None:
        vs = VALUE_SETS[case["values"]]
        n = case["n"]
        if vs == "np1d":
            kw["values"] = np.array(VALUE_SETS["floats"][:n])
        elif vs == "np2d":
            kw["values"] = np.array(VALUE_SETS["pairs"][:n])
        else:
            kw["values"] = tuple(tuple(v) if isinstance(v, list) else v for v in vs[:n])
    if case.get("extra"):
        kw.update(case["extra"])
    return cls(**kw)


def same(a, b):
    seq = (tuple, list, np.ndarray)
    if isinstance(a, seq) or isinstance(b, seq):
        if not (isinstance(a, seq) and isinstance(b, seq)) or len(a) != len(b):
            return False
        return all(same(x, y) for x, y in zip(a, b))
    try:
        return bool(a == b)
    except Exception:  # noqa: BLE001
        return False


def fields_same(a, b, skip=()):
    if type(a) is not type(b):
        return "type %s != %s" % (type(a).__name__, type(b).__name__)
    for f in dataclasses.fields(a):
        if f.name in skip:
            continue
        if not same(getattr(a, f.name), getattr(b, f.name)):
            return "field %s: %r != %r" % (f.name, getattr(a, f.name), getattr(b, f.name))
    return None


def all_slices(n):
    rng = [None] + list(range(-n - 1, n + 2))
    steps = [None, 1, 2, 3, -1, -2]
    return [(a, b, c) for a in rng for b in rng for c in steps]


def check(ctx):
    from abtem.core import axes as A

    classes = axis_classes()
    cases = []
    for name in classes:
        cls = getattr(A, name)
        is_ord = issubclass(cls, A.OrdinalAxis)
        is_lin = issubclass(cls, A.LinearAxis)
        for common in COMMON:
            if is_ord:
                vsets = ["pairs", "np2d"] if name in ("TiltAxis", "PositionsAxis") else ["ints", "floats", "np1d"]
                if name in ("OrdinalAxis", "NonLinearAxis", "ParameterAxis"):
                    vsets = ["ints", "floats", "np1d", "pairs", "np2d"]
                for vs in vsets:
                    for n in range(1, 6 if ctx.quick else 8):
                        extras = [None]
                        if name == "AxisAlignedTiltAxis":
                            extras = [{"direction": "x"}, {"direction": "y"}]
                        for ex in extras:
                            cases.append({"cls": name, "common": common, "values": vs, "n": n, "extra": ex})
            elif is_lin:
                for lin in LINEAR:
                    extras = [None]
                    if name in ("RealSpaceAxis", "ScanAxis"):
                        extras = [{"endpoint": True}, {"endpoint": False}]
                    if name == "ReciprocalSpaceAxis":
                        extras = [{"fftshift": True}, {"fftshift": False}]
                    for ex in extras:
                        cases.append({"cls": name, "common": common, "linear": lin, "extra": ex})
            else:
                cases.append({"cls": name, "common": common})
    if not ctx.quick:
        cases = [dict(c, tier="thorough") for c in cases]
    ctx.extra["axis_classes"] = classes
    ctx.run(cases, "run_case", rule="one case per (axis class, field values, value sequence); inside: 2 round trips, all slices "
            "(start, stop in -n-1..n+1 or None, step in {None,1,2,3,-1,-2}), all integer indices, index lists, masks, concatenation "
            "with every same-class partner length 1..3, coordinates n = 1..6; non-trivial = ordinal axis with >= 2 values or linear axis")


QUICK = [True]


def run_case(case):
    from abtem.core import axes as A

    QUICK[0] = case.get("tier", "quick") == "quick"

    viol = []
    tr = 0

    def bad(key, msg):
        if sum(1 for v in viol if v["key"] == key) < 2:
            viol.append({"key": key, "msg": "%s (%s)" % (msg, case)})

    a = build(case)
    ref = build(case)
    # ---- round trips
    for name, f in (("axis_to_dict", lambda x: A.axis_from_dict(A.axis_to_dict(x))), ("to_dict", lambda x: type(x).from_dict(x.to_dict()))):
        b = f(a)
        tr += 1
        d = fields_same(a, b)
        if d:
            bad("roundtrip/" + name, "fields differ after round trip: " + d)
        if not (b == a and a == b):
            bad("roundtrip/" + name + "-eq", "abTEM equality says the round-tripped axis differs")
    if fields_same(a, ref):
        bad("roundtrip/mutated", "serialisation changed the axis")
    # ---- coordinates
    is_ord = isinstance(a, A.OrdinalAxis)
    if isinstance(a, A.LinearAxis):
        for n in range(1, 7):
            c = a.coordinates(n)
            tr += 1
            want = [a.offset + i * a.sampling for i in range(n)]
            if len(c) != n or any(abs(x - y) > 1e-12 * max(1.0, abs(y)) for x, y in zip(c, want)):
                bad("linear/coordinates", "coordinates(%d) = %r, expected %r" % (n, c, want))
            o = a.to_ordinal_axis(n)
            if not same(o.values, c):
                bad("linear/to-ordinal", "to_ordinal_axis(%d).values = %r" % (n, o.values))
        # a sliced linear axis must describe exactly the selected items: a[s].coordinates(len(range(n)[s])) == a.coordinates(n)[s]
        for n in range(1, 6 if QUICK[0] else 8):
            full = a.coordinates(n)
            for sl in [(b0, b1, st) for b0 in [None] + list(range(0, n + 1)) for b1 in [None] + list(range(0, n + 2)) for st in (None, 1, 2, 3)]:
                sl_ = slice(*sl)
                want = full[sl_]
                tr += 1
                try:
                    got = a[sl_]
                except TypeError:
                    bad("linear/slice-raises", "a[%r] raised TypeError for a non-negative slice" % (sl_,))
                    continue
                d = fields_same(a, got, skip=("offset", "sampling"))
                if d:
                    bad("linear/slice-fields", "slice %r changed other fields: %s" % (sl, d))
                c = got.coordinates(len(want))
                if any(abs(x - y) > 1e-9 * max(1.0, abs(y)) for x, y in zip(c, want)):
                    bad("linear/slice-coordinates", "a[%r] describes coordinates %r, the selected items are at %r (n = %d)" % (sl_, c, want, n))
        if fields_same(a, ref):
            bad("linear/mutated", "slicing changed the receiver")
    elif not is_ord:
        for n in range(1, 7):
            tr += 1
            if not same(a.coordinates(n), tuple(range(n))):
                bad("index/coordinates", "coordinates(%d) = %r" % (n, a.coordinates(n)))
    nontrivial = isinstance(a, A.LinearAxis)
    if is_ord:
        vals = tuple(a.values)
        n = len(vals)
        nontrivial = n >= 2
        if len(a) != n or not same(a.coordinates(n), vals):
            bad("ordinal/len-coordinates", "len/coordinates disagree with values")
        for sl in all_slices(n):
            s = slice(*sl)
            tr += 1
            got = a[s]
            d = fields_same(a, got, skip=("values",))
            if d:
                bad("ordinal/slice-fields", "slice %r changed other fields: %s" % (sl, d))
            if not same(got.values, vals[s]):
                bad("ordinal/slice-values", "a[%r].values = %r, expected %r" % (s, got.values, vals[s]))
        for i in range(-n, n):
            tr += 1
            got = a[i]
            if not same(got.values, (vals[i],)):
                bad("ordinal/int-index", "a[%d].values = %r, expected %r" % (i, got.values, (vals[i],)))
            for np_i in (np.int64(i),):
                if not same(a[np_i].values, (vals[i],)):
                    bad("ordinal/int-index", "a[np.int64(%d)].values = %r" % (i, a[np_i].values))
        for idx in itertools.chain.from_iterable(itertools.permutations(range(n), r) for r in range(1, min(n, 3) + 1)):
            tr += 1
            got = a[list(idx)]
            if not same(got.values, tuple(vals[j] for j in idx)):
                bad("ordinal/list-index", "a[%r].values = %r" % (list(idx), got.values))
        for mask in itertools.product([False, True], repeat=n):
            tr += 1
            got = a[np.array(mask)]
            if not same(got.values, tuple(v for v, m in zip(vals, mask) if m)):
                bad("ordinal/mask-index", "a[mask %r].values = %r" % (mask, got.values))
        if fields_same(a, ref):
            bad("ordinal/mutated", "indexing changed the receiver")
        # ---- concatenation with every partner of the same class / value kind, lengths 1..3
        for m in range(1, 4):
            pc = dict(case)
            pc["n"] = m
            b = build(pc)
            shifted = tuple(b.values)
            tr += 1
            got = a.concatenate(b)
            if not same(got.values, vals + shifted):
                bad("ordinal/concatenate-values", "concatenate values = %r, expected %r" % (got.values, vals + shifted))
            d = fields_same(a, got, skip=("values",))
            if d:
                bad("ordinal/concatenate-fields", "concatenate changed other fields: " + d)
            if not same(a.values, vals) or not same(b.values, shifted):
                bad("ordinal/mutated", "concatenate changed an operand")
        other = dict(case)
        other["common"] = dict(case["common"], label="other-label")
        try:
            a.concatenate(build(other))
            bad("ordinal/concatenate-mismatch", "axes with different labels were concatenated")
        except RuntimeError:
            pass
    return {"viol": viol, "obs": "%s/%s" % (case["cls"], "ok" if not viol else "viol"), "nt": nontrivial, "tr": tr, "ref": tr}
