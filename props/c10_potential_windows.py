"""C10 — potential building and slice windows are consistent.

Space: potential kind {Potential infinite/finite, PotentialArray, FrozenPhonons(1,2,3), AtomsEnsemble(2), CrystalPotential
with and without seeds} x slicing with n = 1..4 slices x exit planes {None, 1} x ALL windows 0 <= first < last <= n x
{lazy, eager}.
Oracle: (1) lazy build == eager build for every ensemble member, and member k == an independent Potential built from the
k-th displaced configuration; (2) list(generate_slices(first, last)) == the sub-list [first:last] of the full slice
sequence (arrays, thicknesses, exit-plane flags); (3) build(first, last) == slices [first:last] of the full build.
"""
import itertools

import numpy as np

META = dict(
    engines=["product"],
    technique="exhaustive enumeration of potential kinds x slicings x ALL slice windows x lazy/eager; differential oracle against the full slice sequence",
    text="For 9 potential kinds, 4 slicings (1-4 slices) and both exit-plane settings, every window [first, last) is generated and built lazily and "
         "eagerly and compared slice by slice with the corresponding part of the full sequence; ensemble members are compared between lazy and "
         "eager builds and with independently built single-configuration potentials.",
    note="Bound: <= 4 slices quick / 8 thorough (CrystalPotential: 2 unit slices x 2 or 3 repetitions), exit planes {None, 1} quick + {2, (0,), (0,1)} thorough, <= 3 configurations, 16x12 grid. Identical arithmetic: tolerance 1e-6 of max V.",
)
RTOL = 1e-6
SLICINGS = {1: 4.0, 2: 2.0, 3: [1.5, 1.0, 1.5], 4: 1.0, 5: 0.8, 6: [0.5, 0.5, 1.0, 1.0, 0.5, 0.5], 8: 0.5}
KINDS = ["atoms", "finite", "array", "fp1", "fp2", "fp3", "ae2", "crystal", "crystal_fp"]


def make(kind, n, ep):
    import abtem
    from mc import universe as U

    st = SLICINGS[n]
    st = tuple(st) if isinstance(st, list) else st
    if kind in ("crystal", "crystal_fp"):
        if n not in (2, 4, 6):
            return None
        ust = 2.0 if n == 2 else 1.0  # unit cell A0 is 2 A high: 1 or 2 unit slices, repeated twice (n = 6: three times) along z
        reps = (1, 1, 3 if n == 6 else 2)
        ep = tuple(ep) if isinstance(ep, list) else ep
        if kind == "crystal":
            return abtem.CrystalPotential(abtem.Potential(U.atoms("A0"), gpts=U.GPTS, slice_thickness=ust), reps, exit_planes=ep)
        fp = abtem.FrozenPhonons(U.atoms("A0"), 2, 0.1, seed=(1, 2))
        return abtem.CrystalPotential(abtem.Potential(fp, gpts=U.GPTS, slice_thickness=ust), reps, seeds=(5, 6), exit_planes=ep)
    return U.potential(kind, ep, slice_thickness=st)


def check(ctx):
    cases = []
    for kind, n, ep in itertools.product(KINDS, (1, 2, 3, 4) if ctx.quick else (1, 2, 3, 4, 5, 6, 8), (None, 1) if ctx.quick else (None, 1, 2, [0], [0, 1])):
        if kind.startswith("crystal") and n not in (2, 4, 6):
            continue
        if isinstance(ep, list) and max(ep) >= n or (isinstance(ep, int) and ep > n):
            continue
        cases.append({"kind": kind, "n": n, "ep": ep})
    ctx.run(cases, "run_case", rule="one case per (kind, number of slices, exit planes); inside: every window first < last, lazy and eager; "
            "non-trivial = n >= 2 (proper windows exist) or an ensemble")


def _arr(x):
    x = x.compute() if hasattr(x, "compute") and x.is_lazy else x
    return np.asarray(x.array)


def run_case(c):
    import abtem
    from mc import universe as U
    from mc.compare import err

    viol, worst, tr = [], 0.0, 0
    n = c["n"]

    def bad(key, msg):
        if sum(1 for v in viol if v["key"] == key) < 2:
            viol.append({"key": key, "msg": "%s (%s)" % (msg, c)})

    def close(a, b, key, msg):
        nonlocal worst
        a, b = np.asarray(a), np.asarray(b)
        if a.shape != b.shape:
            bad(key, "%s: shape %r vs %r" % (msg, a.shape, b.shape))
            return False
        e = err(a, b, RTOL, atol=1e-12)
        worst = max(worst, e)
        if not e <= 1.0:
            bad(key, "%s: max|d| = %.3g on max %.3g" % (msg, float(np.abs(a - b).max()), float(np.abs(b).max())))
            return False
        return True

    kind = c["kind"]
    builder = kind != "array"
    ens = kind in ("fp1", "fp2", "fp3", "ae2", "crystal_fp")
    tag = "crystal" if kind.startswith("crystal") else ("array" if kind == "array" else ("ensemble" if ens else "single"))
    full = None
    if builder:
        # (1) lazy == eager, member by member
        e_full = _arr(make(kind, n, c["ep"]).build(lazy=False))
        l_full = _arr(make(kind, n, c["ep"]).build(lazy=True))
        tr += 2
        close(l_full, e_full, "build/lazy-vs-eager/" + tag, "full build lazy vs eager")
        if kind in ("fp1", "fp2", "fp3", "ae2"):
            cfgs = list(U.frozen_phonons("A1", {"fp1": 1, "fp2": 2, "fp3": 3, "ae2": 2}[kind], False))
            st = SLICINGS[n]
            for k, a in enumerate(cfgs):
                ref = _arr(abtem.Potential(a, gpts=U.GPTS, slice_thickness=tuple(st) if isinstance(st, list) else st).build(lazy=False))
                tr += 1
                if e_full.shape[0] == len(cfgs):
                    close(e_full[k], ref, "build/eager-member/" + tag, "eager build, member %d vs independent single-configuration potential" % k)
                    close(l_full[k], ref, "build/lazy-member/" + tag, "lazy build, member %d vs independent single-configuration potential" % k)
                else:
                    bad("build/ensemble-shape", "built array shape %r for %d configurations" % (e_full.shape, len(cfgs)))
        full = l_full if not ens else None
    # (2) generate_slices windows
    pot = make(kind, n, c["ep"])
    seq = list(pot.generate_slices())
    tr += 1
    if len(seq) != n:
        bad("slices/count/" + tag, "generate_slices() yields %d slices for a potential with %d" % (len(seq), n))
    thick = tuple(pot.slice_thickness)
    cumul = 0
    for first in range(0, n):
        for last_arg in list(range(first + 1, n + 1)) + [None]:  # None: the open-ended window the library itself uses (first_slice=k only)
            last = n if last_arg is None else last_arg
            win = list(make(kind, n, c["ep"]).generate_slices(first, last) if last_arg is not None else make(kind, n, c["ep"]).generate_slices(first_slice=first))
            tr += 1
            if len(win) != last - first:
                bad("slices/window-length/" + tag, "generate_slices(%d, %d) yields %d slices" % (first, last, len(win)))
                continue
            for j, s in enumerate(win):
                ref = seq[first + j]
                ok = close(s.array, ref.array, "slices/window-array/" + tag, "generate_slices(%d, %d)[%d] vs full sequence [%d]" % (first, last, j, first + j))
                if tuple(s.slice_thickness) != tuple(ref.slice_thickness) or abs(s.slice_thickness[0] - thick[first + j]) > 1e-12:
                    bad("slices/window-thickness/" + tag, "generate_slices(%d, %d)[%d] thickness %r, expected %r" % (first, last, j, s.slice_thickness, thick[first + j]))
                if tuple(s.exit_planes) != tuple(ref.exit_planes):
                    bad("slices/window-exit-flag/" + tag, "generate_slices(%d, %d)[%d] exit flag %r, full sequence %r" % (first, last, j, s.exit_planes, ref.exit_planes))
            # (3) build(first, last)
            if builder:
                for lazy in (False, True):
                    tr += 1
                    try:
                        b = make(kind, n, c["ep"]).build(first, last_arg, lazy=lazy)
                        barr = _arr(b)
                    except Exception as e:  # noqa: BLE001
                        bad("build/window-raises/%s/%s" % ("lazy" if lazy else "eager", tag), "build(%d, %d, lazy=%r) raised %s: %s" % (first, last, lazy, type(e).__name__, str(e)[:120]))
                        continue
                    ref_full = _arr(make(kind, n, c["ep"]).build(lazy=False)) if full is None else full
                    want = ref_full[..., first:last, :, :]
                    close(barr, want, "build/window-array/%s/%s" % ("lazy" if lazy else "eager", tag), "build(%d, %d, lazy=%r) vs full build [%d:%d]" % (first, last, lazy, first, last))
                    if tuple(b.slice_thickness) != tuple(thick[first:last]):
                        bad("build/window-thickness/" + tag, "build(%d, %d).slice_thickness = %r" % (first, last, b.slice_thickness))
    # exit-plane flags of the full sequence must mark exactly the potential's exit planes
    flagged = tuple(i for i, s in enumerate(seq) if len(s.exit_planes) > 0)
    want = tuple(p for p in pot.exit_planes if p >= 0)
    if len(seq) == n and flagged != want:
        bad("slices/exit-flags/" + tag, "slices flagged as exit planes %r, potential.exit_planes %r" % (flagged, pot.exit_planes))
    return {"viol": viol, "obs": "%s n=%d" % (kind, n), "nt": n >= 2 or ens, "tr": tr, "ref": tr, "err": worst}
