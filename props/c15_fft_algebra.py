"""C15 — Fourier interpolation and shifting obey their algebra.

Space: all shape pairs (n1, m1) -> (n2, m2) with sides 1..6 (thorough 1..9), i.e. up- and down-sampling independently
per axis, real and complex input, ensemble dims 0..2; all whole-pixel shift vectors in [-N, N]^2 and all pairs from a
fractional shift alphabet on all shapes <= 6; Waves.downsample for max_angle in {cutoff, valid, float}, explicit gpts,
both normalisations, lazy and eager.
Oracle: up then down = identity; 'values' keeps the mean and the coincident samples; 'intensity' keeps sum |FFT|^2 of
band-limited input; resampling a band-limited array there and back is the identity in both directions; whole-pixel
shift = np.roll; shift(a) after shift(b) = shift(a+b); downsample keeps every retained Fourier coefficient.
"""
import itertools

import numpy as np

META = dict(
    engines=["product"],
    technique="exhaustive enumeration of all small shape pairs, dtypes, ensemble ranks and shift vectors against numpy roll / Fourier-coefficient references",
    text="Every ordered pair of 2-D shapes with sides <= 6 (thorough <= 9) x {real, complex} x ensemble rank {0,1,2} is pushed through "
         "fft_interpolate (both normalisations, arbitrary and band-limited content) and checked for the round trip, mean, coincident samples and "
         "reciprocal-space intensity; every whole-pixel shift in [-N,N]^2 and every pair of fractional shifts through fft_shift; Waves.downsample "
         "on 3 grids x 4 targets x 2 normalisations x lazy/eager coefficient by coefficient.",
    note="Bound: sides <= 6/9. float32 tolerance 2e-5 relative to max|x|. Band-limited means no content at or beyond the Nyquist index of the smaller grid.",
)
TOL = 2e-5
FRAC = [[0.3, -1.7], [2.5, 0.25], [-0.6, 3.1]]


def check(ctx):
    N = 6 if ctx.quick else 9
    cases = []
    for n1, m1, n2, m2 in itertools.product(range(1, N + 1), repeat=4):
        for dt in ("real", "complex"):
            for ens in ([], [2], [2, 3]):
                if ens and ctx.quick and (n1 + m1 + n2 + m2) % 3:
                    continue  # quick: ensemble ranks 1 and 2 on a third of the shape pairs
                cases.append({"kind": "interp", "s1": [n1, m1], "s2": [n2, m2], "dtype": dt, "ens": ens})
    # three interpolated axes (what slice_potential / charge densities use): every triple pair from a small side alphabet
    sides = (2, 3, 5) if ctx.quick else (1, 2, 3, 4, 5)
    for s1 in itertools.product(sides, repeat=3):
        for s2 in itertools.product(sides, repeat=3):
            for ens in ([], [2]):
                if ens and (ctx.quick or sum(s1) % 2):
                    continue
                cases.append({"kind": "interp3d", "s1": list(s1), "s2": list(s2), "ens": ens})
    for n, m in itertools.product(range(1, 7), repeat=2):
        for dt in ("real", "complex"):
            cases.append({"kind": "shift", "shape": [n, m], "dtype": dt, "ens": []})
        cases.append({"kind": "shift", "shape": [n, m], "dtype": "complex", "ens": [2]})
    for g, tgt, norm, lazy in itertools.product(range(3), range(4), ("values", "intensity"), (False, True)):
        cases.append({"kind": "downsample", "grid": g, "target": tgt, "norm": norm, "lazy": lazy})
    ctx.run(cases, "run_case", rule="interp: one case per (shape pair, dtype, ensemble rank); shift: per (shape, dtype), all whole-pixel vectors "
            "in [-N,N]^2 inside; downsample: per (grid, target, normalisation, lazy); non-trivial = shapes differ / array has > 1 pixel")


def rand(shape, dt, *salt):
    from mc.compare import rng

    r = rng("c15", shape, dt, *salt)
    x = r.normal(size=tuple(shape)).astype(np.float32)
    if dt == "complex":
        x = (x + 1j * r.normal(size=tuple(shape))).astype(np.complex64)
    return x


def band_limited(ens, s1, s2, dt, *salt):
    """content only at integer frequencies strictly inside the Nyquist limit of both grids (per axis)"""
    from mc.compare import rng

    r = rng("c15bl", ens, s1, s2, dt, *salt)
    shape = tuple(ens) + tuple(s1)
    F = r.normal(size=shape) + 1j * r.normal(size=shape)
    mask = np.ones(tuple(s1), bool)
    for ax, (a, b) in enumerate(zip(s1, s2)):
        lim = min(a, b)
        k = np.rint(np.fft.fftfreq(a) * a).astype(int)
        ok = (2 * np.abs(k) < lim) if lim > 1 else (k == 0)
        mask &= ok[:, None] if ax == 0 else ok[None, :]
    F = F * mask
    x = np.fft.ifft2(F)
    if dt == "real":
        x = x.real
        return x.astype(np.float32)
    return x.astype(np.complex64)


def relerr(a, b):
    a, b = np.asarray(a), np.asarray(b)
    if a.shape != b.shape:
        return float("inf")
    s = max(float(np.abs(b).max()) if b.size else 0.0, 1e-12)
    return float(np.abs(a - b).max()) / s if a.size else 0.0


def run_case(case):
    return {"interp": run_interp, "interp3d": run_interp3d, "shift": run_shift, "downsample": run_downsample}[case["kind"]](case)


def run_interp3d(case):
    """fft_interpolate over the last THREE axes: mean, coincident samples, up-down identity (complex content)"""
    from abtem.core.fft import fft_interpolate

    s1, s2, ens = tuple(case["s1"]), tuple(case["s2"]), tuple(case["ens"])
    viol, worst, tr = [], 0.0, 0

    def chk(key, e, msg, tol=TOL):
        nonlocal worst
        worst = max(worst, e / tol)
        if not e <= tol:
            viol.append({"key": key, "msg": "%s: relative error %.3g (%s)" % (msg, e, case)})

    x = rand(ens + s1, "complex", "3d")
    x0 = x.copy()
    y = fft_interpolate(x, s2, normalization="values")
    tr += 1
    if y.shape != ens + s2:
        viol.append({"key": "interp3d/shape", "msg": "output shape %r (%s)" % (y.shape, case)})
        return {"viol": viol}
    scale = max(float(np.abs(x0).max()), 1e-12)
    ax = (-3, -2, -1)
    chk("interp3d/values-mean", float(np.abs(y.mean(axis=ax) - x0.mean(axis=ax)).max()) / scale, "'values' normalisation must preserve the mean over the three interpolated axes")
    if all(b >= a for a, b in zip(s1, s2)):
        back = fft_interpolate(y, s1, normalization="values")
        tr += 1
        chk("interp3d/updown-identity", relerr(back, x0), "upsampling then downsampling must return the original")
        if all(b % a == 0 for a, b in zip(s1, s2)):
            f = [b // a for a, b in zip(s1, s2)]
            chk("interp3d/coincident-samples", relerr(y[..., :: f[0], :: f[1], :: f[2]], x0), "'values' upsampling by integer factors must pass through the original samples")
    z = fft_interpolate(x0.copy(), s2, normalization="intensity")
    tr += 1
    if all(b >= a for a, b in zip(s1, s2)):  # nothing is cut off: Parseval
        i0 = (np.abs(np.fft.fftn(x0.astype(np.complex128), axes=ax)) ** 2).sum(axis=ax)
        i1 = (np.abs(np.fft.fftn(np.asarray(z).astype(np.complex128), axes=ax)) ** 2).sum(axis=ax)
        chk("interp3d/intensity-sum", relerr(i1, i0), "'intensity' normalisation must preserve sum |FFT|^2 when upsampling", 5e-5)
    if not np.array_equal(x, x0):
        viol.append({"key": "interp3d/mutated", "msg": "the input array was modified (%s)" % (case,)})
    return {"viol": viol, "obs": "ok" if not viol else viol[0]["key"], "nt": s1 != s2, "tr": tr, "ref": tr, "err": worst}


def run_interp(case):
    from abtem.core.fft import fft_interpolate

    s1, s2, dt, ens = tuple(case["s1"]), tuple(case["s2"]), case["dtype"], tuple(case["ens"])
    viol, worst, tr = [], 0.0, 0

    def bad(key, msg):
        viol.append({"key": key, "msg": "%s (%s)" % (msg, case)})

    def chk(key, e, msg, tol=TOL):
        nonlocal worst
        worst = max(worst, e / tol)
        if not e <= tol:
            bad(key, "%s: relative error %.3g" % (msg, e))

    x = rand(ens + s1, dt)
    x0 = x.copy()
    up_only = s2[0] >= s1[0] and s2[1] >= s1[1]
    y = fft_interpolate(x, s2, normalization="values")
    tr += 1
    if y.shape != ens + s2:
        bad("interp/shape", "output shape %r" % (y.shape,))
        return {"viol": viol}
    if (dt == "real") != (not np.iscomplexobj(y)):
        bad("interp/dtype", "real input must give real output and complex complex (got %s)" % y.dtype)
    scale = max(float(np.abs(x0).max()), 1e-12)
    chk("values/mean", float(np.abs(y.mean(axis=(-2, -1)) - x0.mean(axis=(-2, -1))).max()) / scale,
        "'values' normalisation must preserve the mean (error relative to max|x|)")
    if up_only:
        back = fft_interpolate(y, s1, normalization="values")
        tr += 1
        nyq = dt == "real" and ((s1[0] % 2 == 0 and s2[0] > s1[0]) or (s1[1] % 2 == 0 and s2[1] > s1[1]))
        chk("updown/real-even-nyquist" if nyq else "updown/identity", relerr(back, x0), "upsampling then downsampling must return the original")
        if s2[0] % s1[0] == 0 and s2[1] % s1[1] == 0:
            chk("values/coincident-samples", relerr(y[..., :: s2[0] // s1[0], :: s2[1] // s1[1]], x0),
                "'values' upsampling by an integer factor must pass through the original samples")
    # band-limited content: both directions are lossless
    b = band_limited(ens, s1, s2, dt)
    b0 = b.copy()
    for norm in ("values", "intensity"):
        z = fft_interpolate(b, s2, normalization=norm)
        back = fft_interpolate(z, s1, normalization=norm)
        tr += 2
        chk("bandlimited/roundtrip-" + norm, relerr(back, b0), "resampling band-limited content there and back (%s)" % norm)
        if norm == "intensity":
            i0 = (np.abs(np.fft.fft2(b0.astype(np.complex128))) ** 2).sum(axis=(-2, -1))
            i1 = (np.abs(np.fft.fft2(np.asarray(z).astype(np.complex128))) ** 2).sum(axis=(-2, -1))
            chk("intensity/sum-fft2", relerr(i1, i0), "'intensity' normalisation must preserve sum |FFT|^2 of band-limited content", 5e-5)
        else:
            # 'values': band-limited content is reproduced at coincident positions of the continuous interpolant: compare spectra
            f0 = np.fft.fft2(b0.astype(np.complex128)) / np.prod(s1)
            f1 = np.fft.fft2(np.asarray(z).astype(np.complex128)) / np.prod(s2)
            chk("values/coefficients", abs(float(np.abs(f1).max()) - float(np.abs(f0).max())) / max(float(np.abs(f0).max()), 1e-12),
                "'values' normalisation must keep the Fourier coefficient magnitudes")
    if not np.array_equal(x, x0) or not np.array_equal(b, b0):
        bad("interp/mutated", "the input array was modified")
    return {"viol": viol, "obs": "ok" if not viol else viol[0]["key"], "nt": s1 != s2, "tr": tr, "ref": tr, "err": worst}


def run_shift(case):
    from abtem.core.fft import fft_shift

    shape, dt, ens = tuple(case["shape"]), case["dtype"], tuple(case["ens"])
    viol, worst, tr = [], 0.0, 0
    x = rand(ens + shape, dt, "shift")
    x0 = x.copy()
    n, m = shape

    def chk(key, e, msg, tol=TOL):
        nonlocal worst
        worst = max(worst, e / tol)
        if not e <= tol and sum(1 for v in viol if v["key"] == key) < 2:
            viol.append({"key": key, "msg": "%s: relative error %.3g (%s)" % (msg, e, case)})

    for sx in range(-n, n + 1):
        for sy in range(-m, m + 1):
            got = fft_shift(x.astype(np.complex64), np.array([float(sx), float(sy)]))
            tr += 1
            chk("shift/whole-pixel-roll", relerr(got, np.roll(x0, (sx, sy), axis=(-2, -1))), "shift by (%d,%d) must equal np.roll" % (sx, sy))
    xc = x.astype(np.complex64)
    for a, b in itertools.product(FRAC, repeat=2):
        ab = fft_shift(fft_shift(xc, np.array(b)), np.array(a))
        direct = fft_shift(xc, np.array(a) + np.array(b))
        tr += 3
        chk("shift/additive", relerr(ab, direct), "shift(%r) after shift(%r) must equal shift of the sum" % (a, b))
    if not ens:
        pos = np.array(FRAC)
        batch = fft_shift(xc, pos)
        tr += 1
        if batch.shape != (len(FRAC),) + shape:
            viol.append({"key": "shift/batch-shape", "msg": "batched positions give shape %r (%s)" % (batch.shape, case)})
        else:
            for i, p in enumerate(FRAC):
                chk("shift/batch-member", relerr(batch[i], fft_shift(xc, np.array(p))), "batched position %d differs from the single shift" % i)
    if not np.array_equal(x, x0):
        viol.append({"key": "shift/mutated", "msg": "input modified"})
    return {"viol": viol, "obs": "ok" if not viol else viol[0]["key"], "nt": n * m > 1, "tr": tr, "ref": tr, "err": worst}


DGRIDS = [((12, 12), (6.0, 6.0)), ((16, 12), (8.0, 6.0)), ((15, 10), (6.0, 5.0))]
TARGETS = ["cutoff", "valid", 40.0, "gpts"]


def run_downsample(case):
    import abtem

    gpts, extent = DGRIDS[case["grid"]]
    tgt = TARGETS[case["target"]]
    viol = []
    # band-limited content: only the 3x3 lowest frequencies, batch of 2
    b = band_limited((2,), gpts, (3, 3), "complex", "ds")
    from abtem.core.axes import OrdinalAxis

    w = abtem.Waves(b.copy(), energy=100e3, extent=extent, ensemble_axes_metadata=[OrdinalAxis(label="k", values=(0, 1))])
    if case["lazy"]:
        w = w.ensure_lazy()
    kw = dict(normalization=case["norm"])
    if tgt == "gpts":
        new = w.downsample(gpts=(gpts[0] - 3, gpts[1] - 4), **kw)
    else:
        new = w.downsample(max_angle=tgt, **kw)
    new = new.compute() if case["lazy"] else new
    arr = np.asarray(new.array)
    g2 = arr.shape[-2:]
    if tuple(new.gpts) != tuple(g2):
        viol.append({"key": "downsample/gpts", "msg": "gpts %r but array shape %r (%s)" % (new.gpts, arr.shape, case)})
    for d in range(2):
        if abs(new.sampling[d] * g2[d] - extent[d]) > 1e-6 * extent[d]:
            viol.append({"key": "downsample/extent", "msg": "sampling*gpts = %r, extent %r (%s)" % (new.sampling[d] * g2[d], extent[d], case)})
    f_old = np.fft.fft2(b.astype(np.complex128))
    f_new = np.fft.fft2(arr.astype(np.complex128))
    scale = 1.0 if case["norm"] == "intensity" else np.prod(g2) / np.prod(gpts)
    kx_old = np.rint(np.fft.fftfreq(gpts[0]) * gpts[0]).astype(int)
    ky_old = np.rint(np.fft.fftfreq(gpts[1]) * gpts[1]).astype(int)
    kx_new = np.rint(np.fft.fftfreq(g2[0]) * g2[0]).astype(int)
    ky_new = np.rint(np.fft.fftfreq(g2[1]) * g2[1]).astype(int)
    ref = np.zeros(f_new.shape, complex)
    for i, kx in enumerate(kx_new):
        for j, ky in enumerate(ky_new):
            io, jo = np.where(kx_old == kx)[0], np.where(ky_old == ky)[0]
            if len(io) and len(jo):
                ref[..., i, j] = f_old[..., io[0], jo[0]] * scale
    e = relerr(f_new, ref)
    if not e <= 5e-5:
        viol.append({"key": "downsample/coefficients", "msg": "retained Fourier coefficients differ by %.3g (%s)" % (e, case)})
    lost = abs((np.abs(ref) ** 2).sum() - (np.abs(f_old * scale) ** 2).sum()) / (np.abs(f_old * scale) ** 2).sum()
    if lost > 1e-9:
        viol.append({"key": "downsample/band-lost", "msg": "target grid %r does not contain the 3x3 lowest frequencies (%s)" % (g2, case)})
    return {"viol": viol, "obs": "%r" % (g2,), "nt": tuple(g2) != tuple(gpts), "tr": 1, "err": e / 5e-5}
