"""C13 — polar measurements integrate exactly the bins inside the requested limits.

Space: (nr, na) bins in 1..5 x 1..6 (quick 1..4 x 1..4), radial sampling in {0.1, 0.3, 0.7, 1, 2.5}, radial offset in
{0, 0.5, 1.3}, azimuthal offset in {0, 0.4, -pi/8, 2 pi + 0.4}, ensembles {2 scan axes, 1 scan axis, ordinal + 2 scan axes}, lazy/eager;
inside each: ALL bin-edge-aligned radial limit pairs, ALL aligned azimuthal pairs, all combinations of both, no limits,
and every partition of the radial / azimuthal range into 2 or 3 contiguous parts.
Oracle: the limits are generated from integer bin indices, so the reference knows exactly which bins lie inside; the
arrays hold small integers, so float32 sums are exact and compared with ==.
"""
import itertools

import numpy as np

META = dict(
    engines=["product"],
    technique="exhaustive enumeration of bin layouts and of all edge-aligned limit pairs/partitions against an exact integer reference sum",
    text="For every bin layout (counts, samplings, offsets), ensemble kind and evaluation mode, every edge-aligned radial pair, azimuthal pair, "
         "their combinations, the unlimited integral and all 2-/3-part partitions are integrated by the real PolarMeasurements.integrate and "
         "compared exactly (integer-valued data) with the sum over the bins the limits enclose.",
    note="Bound: <= 5 x 6 bins, the sampling/offset alphabets. Only edge-aligned limits are decided (the statement's quantifier); limits are "
         "computed as offset + i*sampling in float64, which is how a user obtains them from the axis metadata.",
)
RS = [0.1, 0.3, 0.7, 1.0, 2.5]
RO = [0.0, 0.5, 1.3]
AO = [0.0, 0.4, -0.3926990816987241, 6.683185307179586]  # 0, generic, negative (-pi/8), beyond one turn (2 pi + 0.4)
ENS = ["scan2", "scan1", "ord+scan2"]


def check(ctx):
    nrs = range(1, 5) if ctx.quick else range(1, 6)
    nas = range(1, 5) if ctx.quick else range(1, 7)
    cases = []
    for nr, na, rs, ro, ao, ens, lazy in itertools.product(nrs, nas, range(len(RS)), range(len(RO)), range(len(AO)), ENS, (False, True)):
        if ctx.quick and lazy and (ens != "scan2" or rs not in (1, 3)):
            continue  # quick: the lazy path shares the index computation; sampled on one ensemble kind and two samplings
        cases.append({"nr": nr, "na": na, "rs": rs, "ro": ro, "ao": ao, "ens": ens, "lazy": lazy})
    # measurements as the library itself produces them: DiffractionPatterns.polar_binning / radial_binning with a non-zero inner angle
    for inner, outer, nr, na, rot, lazy in itertools.product((0.0, 10.0, 20.0), (40.0, 60.0), (1, 2, 4), (1, 3), (0.0, 0.4), (False, True)):
        if ctx.quick and lazy and (nr != 4 or na != 3):
            continue
        cases.append({"via": "polar_binning", "inner": inner, "outer": outer, "nr": nr, "na": na, "rot": rot, "lazy": lazy})
    for inner, outer, step in itertools.product((0.0, 10.0, 20.0), (40.0, 60.0), (5.0, 10.0)):
        cases.append({"via": "radial_binning", "inner": inner, "outer": outer, "step": step, "lazy": False})
    for na, nr, rot, lazy in itertools.product((3, 4, 6), (1, 2), (0.0, 0.5, 1.0, -0.3), (False, True)):
        cases.append({"via": "rotation", "na": na, "nr": nr, "rot": rot, "lazy": lazy})
    ctx.run(cases, "run_case", rule="one case per (bins, sampling, offsets, ensemble, lazy); inside all aligned limit pairs and partitions; "
            "non-trivial = more than one bin")


def make(case):
    import abtem
    from abtem.core.axes import OrdinalAxis, ScanAxis
    from mc.compare import rng

    nr, na = case["nr"], case["na"]
    eshape = {"scan2": (2, 3), "scan1": (3,), "ord+scan2": (2, 2, 3)}[case["ens"]]
    arr = rng("c13", nr, na, case["ens"]).integers(0, 10, size=eshape + (nr, na)).astype(np.float32)
    axes = []
    if case["ens"] == "ord+scan2":
        axes.append(OrdinalAxis(label="p", values=(0, 1)))
    if case["ens"] == "scan1":
        axes.append(ScanAxis(label="x", sampling=0.5, units="Å"))
    else:
        axes += [ScanAxis(label="x", sampling=0.5, units="Å"), ScanAxis(label="y", sampling=0.4, units="Å")]
    pm = abtem.measurements.PolarMeasurements(arr.copy(), radial_sampling=RS[case["rs"]], azimuthal_sampling=2 * np.pi / na,
                                              radial_offset=RO[case["ro"]], azimuthal_offset=AO[case["ao"]], ensemble_axes_metadata=axes)
    if case["lazy"]:
        pm = pm.ensure_lazy()
    return pm, arr


def run_rotation(case):
    """Independent reference for binned measurements: EVERY pixel of a ring of a 15 x 15 pattern carries unit intensity in an ensemble member of its
    own; after polar_binning with a rotation, integrate(azimuthal_limits = the range the k-th bin claims) must be 1 exactly for the bin
    whose claimed range contains the pixel's azimuth, and 0 for the others."""
    from abtem.core.axes import OrdinalAxis
    from abtem.measurements import DiffractionPatterns

    n, c0, samp = 15, 7, 0.05
    na, rot = case["na"], case["rot"]
    width = 2 * np.pi / na
    pix = []
    for i in range(n):
        for j in range(n):
            rr = np.hypot(i - c0, j - c0)
            if 2.0 <= rr <= 6.5:
                phi = np.arctan2(j - c0, i - c0) % (2 * np.pi)
                d = ((phi - rot) % (2 * np.pi)) / width
                if min(d - np.floor(d), np.ceil(d) - d) * width > 0.02:  # not on a bin boundary (the property says nothing about ties)
                    pix.append((i, j, phi))
    arr = np.zeros((len(pix), n, n), np.float32)
    for m, (i, j, _) in enumerate(pix):
        arr[m, i, j] = 1.0
    dp = DiffractionPatterns(arr, sampling=samp, fftshift=True, ensemble_axes_metadata=[OrdinalAxis(values=tuple(range(len(pix))))], metadata={"energy": 100e3})
    if case["lazy"]:
        dp = dp.ensure_lazy()
    outer = float(dp.angular_coordinates[0][c0 + 7] if hasattr(dp, "angular_coordinates") else 1.0)
    pm = dp.polar_binning(nbins_radial=case["nr"], nbins_azimuthal=na, inner=0.0, outer=outer, rotation=rot)
    viol, tr = [], 0
    off = float(pm.azimuthal_offset)
    got = []
    for k in range(na):
        out = pm.integrate(azimuthal_limits=(off + k * width, off + (k + 1) * width))
        out = out.compute() if getattr(out, "is_lazy", False) else out
        got.append(np.asarray(out.array, dtype=np.float64))
        tr += 1
    got = np.stack(got, axis=-1)
    want = np.zeros_like(got)
    for m, (_, _, phi) in enumerate(pix):
        want[m, int(np.floor(((phi - off) % (2 * np.pi)) / width))] = 1.0
    badm = np.where(np.abs(got - want).max(axis=-1) > 1e-6)[0]
    if len(badm):
        m = int(badm[0])
        viol.append({"key": "via-polar_binning/azimuth-of-bins", "msg": "pixel (%d, %d) at azimuth %.3f rad, bins rotated by %.2f (offset %.2f): integrals over the %d claimed azimuthal ranges %r, expected %r; %d of %d pixels wrong (%s)" % (
            pix[m][0] - c0, pix[m][1] - c0, pix[m][2], rot, off, na, got[m].round(3).tolist(), want[m].tolist(), len(badm), len(pix), case)})
    return {"viol": viol, "obs": "%d pixels" % len(pix), "nt": True, "tr": tr, "ref": len(pix), "st": len(pix)}


def run_via(case):
    """the measurement comes from binning a diffraction pattern; its bins must sit where inner / outer / nbins say, so that edge-aligned
    limits select exactly the bins of its own array"""
    import abtem
    from abtem.core.axes import ScanAxis
    from mc.compare import rng

    viol, tr = [], 0
    r = rng("c13via")
    pat = r.uniform(0.1, 1.0, size=(2, 3, 33, 33)).astype(np.float32)
    dp = abtem.measurements.DiffractionPatterns(pat, sampling=0.12, ensemble_axes_metadata=[ScanAxis(label="x", sampling=0.5, units="Å"), ScanAxis(label="y", sampling=0.4, units="Å")],
                                                metadata={"energy": 100e3})
    if case["lazy"]:
        dp = dp.ensure_lazy()
    inner, outer = case["inner"], case["outer"]
    if case["via"] == "polar_binning":
        pm = dp.polar_binning(nbins_radial=case["nr"], nbins_azimuthal=case["na"], inner=inner, outer=outer, rotation=case["rot"])
        nr = case["nr"]
    else:
        pm = dp.radial_binning(step_size=case["step"], inner=inner, outer=outer)
        nr = None
    pmc = pm.compute() if getattr(pm, "is_lazy", False) else pm
    arr = np.asarray(pmc.array, dtype=np.float64)
    nr = arr.shape[-2]
    w = (outer - inner) / nr if case["via"] == "polar_binning" else case["step"]
    for i in range(nr):
        for j in range(i + 1, nr + 1):
            rl = (inner + i * w, inner + j * w)
            out = pm.integrate(radial_limits=rl)
            out = out.compute() if getattr(out, "is_lazy", False) else out
            got = np.asarray(out.array, dtype=np.float64)
            tr += 1
            want = arr[..., i:j, :].sum(axis=(-2, -1))
            if got.shape != want.shape or not np.allclose(got, want, rtol=1e-6, atol=1e-9):
                if sum(1 for v in viol if v["key"].startswith("via")) < 2:
                    viol.append({"key": "via-%s/bins-radial" % case["via"], "msg": "integrate(radial_limits=%r) of a measurement binned with inner=%r outer=%r (%d radial bins of %r mrad): got %r, its own bins %d:%d sum to %r (%s)" % (
                        rl, inner, outer, nr, w, got.ravel()[:3].round(3).tolist(), i, j, want.ravel()[:3].round(3).tolist(), case)})
    total = pm.integrate()
    total = total.compute() if getattr(total, "is_lazy", False) else total
    if not np.allclose(np.asarray(total.array, dtype=np.float64), arr.sum(axis=(-2, -1)), rtol=1e-6):
        viol.append({"key": "via-%s/total" % case["via"], "msg": "integrate() differs from the sum of all bins (%s)" % (case,)})
    return {"viol": viol, "obs": "via", "nt": nr > 1, "tr": tr + 1, "ref": tr + 1, "st": tr + 1}


def run_case(case):
    if case.get("via") == "rotation":
        return run_rotation(case)
    if case.get("via"):
        return run_via(case)
    viol, tr = [], 0
    pm, arr = make(case)
    nr, na = case["nr"], case["na"]
    rs, ro, ao = RS[case["rs"]], RO[case["ro"]], AO[case["ao"]]
    asamp = 2 * np.pi / na

    def bad(key, msg):
        if sum(1 for v in viol if v["key"] == key) < 2:
            viol.append({"key": key, "msg": "%s (%s)" % (msg, case)})

    def integ(rl, al):
        nonlocal tr
        tr += 1
        out = pm.integrate(radial_limits=rl, azimuthal_limits=al)
        if hasattr(out, "compute"):
            out = out.compute()
        return np.asarray(out.array if hasattr(out, "array") else out)

    def redge(i):
        return ro + i * rs

    def aedge(j):
        return ao + j * asamp

    rpairs = [None] + [(i, j) for i in range(nr) for j in range(i + 1, nr + 1)]
    apairs = [None] + [(i, j) for i in range(na) for j in range(i + 1, na + 1)]
    results = {}
    for rp, ap in itertools.product(rpairs, apairs):
        rl = None if rp is None else (redge(rp[0]), redge(rp[1]))
        al = None if ap is None else (aedge(ap[0]), aedge(ap[1]))
        try:
            got = integ(rl, al)
        except Exception as e:  # noqa: BLE001
            bad("raises/%s" % type(e).__name__, "integrate(radial=%r, azimuthal=%r) raised %r" % (rl, al, e))
            continue
        r0, r1 = (0, nr) if rp is None else rp
        a0, a1 = (0, na) if ap is None else ap
        want = arr[..., r0:r1, a0:a1].sum(axis=(-2, -1), dtype=np.float64)
        results[(rp, ap)] = got
        if got.shape != want.shape:
            bad("shape", "result shape %r, expected %r" % (got.shape, want.shape))
        elif not np.array_equal(got.astype(np.float64), want):
            kind = "total" if rp is None and ap is None else ("radial" if ap is None else ("azimuthal" if rp is None else "both"))
            bad("bins/" + kind, "radial bins %r azimuthal bins %r (limits %r, %r): got %r expected %r" % (
                rp, ap, rl, al, got.ravel()[:4].tolist(), want.ravel()[:4].tolist()))
    # partitions of the ranges into 2 or 3 contiguous parts must add up to the full integral (abTEM against abTEM)
    full = results.get((None, None))
    if full is not None:
        for n, mk in ((nr, lambda p: (p, None)), (na, lambda p: (None, p))):
            for k in (2, 3):
                for cuts in itertools.combinations(range(1, n), k - 1):
                    edges = (0,) + cuts + (n,)
                    parts = [results.get(mk((edges[i], edges[i + 1]))) for i in range(k)]
                    if any(p is None for p in parts):
                        continue
                    if not np.array_equal(sum(p.astype(np.float64) for p in parts), full.astype(np.float64)):
                        bad("partition/" + ("radial" if n == nr and mk((0, 1))[0] is not None else "azimuthal"),
                            "parts %r do not add up to the full integral" % (edges,))
    if not np.array_equal(np.asarray(pm.compute().array if case["lazy"] else pm.array), arr):
        bad("mutated", "integrate changed the measurement")
    return {"viol": viol, "obs": "ok" if not viol else ",".join(sorted({v["key"] for v in viol})), "nt": nr * na > 1, "tr": tr, "ref": tr, "st": tr}
