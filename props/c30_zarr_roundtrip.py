"""C30 — saved results load back unchanged.

Space: every array-object class that can be written {Waves (real/reciprocal space), Images, DiffractionPatterns (shifted /
unshifted), Real/ReciprocalSpaceLineProfiles, PolarMeasurements, MeasurementsEnsemble, PotentialArray (with exit planes),
SMatrixArray} x ensemble axis kinds {none, ordinal, scan, tilt pairs, positions, frozen phonons, thickness, parameter, two axes}
x dtypes {float32, float64, complex64} where the class allows x metadata {empty, tuple, nested dict, numpy scalar, numpy
array, None value} x lazy/eager x store {directory, .zip} x {single object, ComputableList of two}.
Oracle: same type; array_equal incl. dtype; per-axis equality of type and of every dataclass field (incl. the underscore flags, read directly, not through axis_to_dict); metadata compared deeply (a NumPy
scalar and the Python scalar of equal value count as identical: JSON attributes cannot carry the NumPy type).
"""
import itertools
import os
import shutil
import tempfile

import numpy as np

META = dict(
    engines=["product"],
    technique="exhaustive enumeration of object classes x axis kinds x dtypes x metadata shapes x lazy/eager x store kinds; round trip compared field by field",
    text="Every writable array-object class, 9 ensemble-axis configurations, the dtypes the class accepts, 6 metadata shapes, lazy and eager objects, "
         "directory and zip stores, single objects and ComputableLists are written with to_zarr and read back with from_zarr; type, array, dtype, "
         "every axis (type and dict) and the metadata are compared. Lists of three same-class objects are written to one file and every subset of the loaded lazy items is evaluated in one dask graph.",
    note="Bound: arrays <= (2,3,6,5). Stores are created in a per-case temporary directory under /dev/shm (or $TMPDIR) and removed. A class for which "
         "to_zarr is unsupported is recorded as uncovered, not as a violation.",
)
CLASSES = ["Waves", "WavesReciprocal", "Images", "DiffractionPatterns", "DiffractionPatternsUnshifted", "RealSpaceLineProfiles", "ReciprocalSpaceLineProfiles",
           "PolarMeasurements", "MeasurementsEnsemble", "PotentialArray", "SMatrixArray"]
AXES = ["none", "ordinal", "scan", "tilt", "positions", "fp", "thickness", "parameter", "ordinal+scan", "flags"]
METAS = ["empty", "tuple", "nested", "npscalar", "nparray", "none", "mixed"]


def check(ctx):
    q = ctx.quick
    cases = []
    for cls, ax in itertools.product(CLASSES, AXES):
        for meta, lazy, store in itertools.product(METAS, (False, True), ("dir", "zip")):
            if q and not (meta == METAS[(CLASSES.index(cls) + AXES.index(ax)) % 6] or (meta in ("nested", "mixed") and ax in ("ordinal", "scan"))):
                continue
            if q and lazy != ((CLASSES.index(cls) + AXES.index(ax)) % 2 == 0) and ax not in ("ordinal", "tilt"):
                continue
            cases.append({"cls": cls, "axes": ax, "meta": meta, "lazy": lazy, "store": store, "dtype": "default"})
    for cls, dt in itertools.product(("Images", "DiffractionPatterns", "MeasurementsEnsemble", "RealSpaceLineProfiles"), ("float64", "complex64")):
        for store in ("dir", "zip"):
            cases.append({"cls": cls, "axes": "ordinal", "meta": "tuple", "lazy": False, "store": store, "dtype": dt})
    for store, lazy in itertools.product(("dir", "zip"), (False, True)):
        cases.append({"cls": "LIST", "axes": "scan", "meta": "tuple", "lazy": lazy, "store": store, "dtype": "default"})
        cases.append({"cls": "LIST", "axes": "scan", "meta": "tuple", "lazy": lazy, "store": store, "dtype": "default", "same": True})
    ctx.run(cases, "run_case", rule="one case per (class, axis kind, metadata shape, lazy, store[, dtype]); non-trivial = has ensemble axes or metadata")


def make_axes(kind):
    from abtem.core import axes as A

    table = {
        "none": [],
        "ordinal": [A.OrdinalAxis(label="p", values=(1.5, 2.5, 4.0), units="nm")],
        "scan": [A.ScanAxis(label="x", sampling=0.5, offset=1.0, units="Å", endpoint=False)],
        "tilt": [A.TiltAxis(label="tilt", values=((0.0, 1.0), (2.0, -3.0), (4.5, 0.0)))],
        "positions": [A.PositionsAxis(values=((0.0, 0.0), (1.0, 2.0), (3.5, 0.25)))],
        "fp": [A.FrozenPhononsAxis(_ensemble_mean=True)],
        "flags": [A.ScanAxis(label="x", sampling=0.5, offset=1.0, units="Å", _main=False), A.OrdinalAxis(label="o", values=(1, 2), _default_type="overlay", _squeeze=True)],
        "thickness": [A.ThicknessAxis(values=(0.0, 2.0, 4.5))],
        "parameter": [A.ParameterAxis(label="C10", values=(-10.0, 0.0, 25.0), units="Å", tex_label="$C_{10}$", _ensemble_mean=False)],
        "ordinal+scan": [A.OrdinalAxis(label="q", values=("a", "b")), A.ScanAxis(label="y", sampling=0.25, units="Å")],
    }
    return table[kind]


def make_meta(kind):
    return {"empty": {}, "tuple": {"pair": (1.0, 2.0), "label": "intensity"}, "nested": {"outer": {"inner": [1, 2, {"deep": 3.5}]}, "flag": True},
            "npscalar": {"value": np.float32(1.25), "count": np.int64(7)}, "nparray": {"vector": np.array([1.0, 2.0, 3.0])}, "none": {"nothing": None, "x": 1},
            # sequences whose FIRST element is a scalar and a later one a tuple / list (and the reverse)
            "mixed": {"roi": ("rect", (0, 0), (4, 4)), "marks": [3, (1, 2)], "deep": [(1, 2), "x", [(3,), 4.5]], "late": (1, 2, [3, (4, 5)])}}[kind]


def make(c):
    import abtem
    from abtem import measurements as M
    from mc.compare import rng

    axes = make_axes(c["axes"])
    sh = tuple(3 if c["axes"] not in ("ordinal+scan", "flags") else ((2, 3) if c["axes"] == "ordinal+scan" else (3, 2))[i] for i in range(len(axes)))
    md = make_meta(c["meta"])
    r = rng("c30", c["cls"], c["axes"])
    dt = {"default": np.float32, "float64": np.float64, "complex64": np.complex64}[c["dtype"]]

    def data(base, dtype=dt):
        a = r.normal(size=sh + base)
        if np.dtype(dtype).kind == "c":
            a = a + 1j * r.normal(size=sh + base)
        return a.astype(dtype)

    cls = c["cls"]
    if cls in ("Waves", "WavesReciprocal"):
        obj = abtem.Waves(data((6, 5), np.complex64), energy=1e5, sampling=0.2, ensemble_axes_metadata=axes, metadata=md, reciprocal_space=cls == "WavesReciprocal")
    elif cls == "Images":
        obj = abtem.Images(data((6, 5)), sampling=(0.2, 0.3), ensemble_axes_metadata=axes, metadata=md)
    elif cls in ("DiffractionPatterns", "DiffractionPatternsUnshifted"):
        obj = M.DiffractionPatterns(data((6, 5)), sampling=(0.1, 0.15), fftshift=cls == "DiffractionPatterns", ensemble_axes_metadata=axes, metadata=dict(md, energy=1e5))
    elif cls == "RealSpaceLineProfiles":
        obj = M.RealSpaceLineProfiles(data((7,)), sampling=0.2, ensemble_axes_metadata=axes, metadata=md)
    elif cls == "ReciprocalSpaceLineProfiles":
        obj = M.ReciprocalSpaceLineProfiles(data((7,)), sampling=0.2, ensemble_axes_metadata=axes, metadata=md)
    elif cls == "PolarMeasurements":
        obj = M.PolarMeasurements(data((4, 3)), radial_sampling=1.5, azimuthal_sampling=2 * np.pi / 3, radial_offset=2.0, azimuthal_offset=0.3, ensemble_axes_metadata=axes, metadata=md)
    elif cls == "MeasurementsEnsemble":
        if not axes:
            return None
        obj = M.MeasurementsEnsemble(data(()), ensemble_axes_metadata=axes, metadata=md)
    elif cls == "PotentialArray":
        if c["axes"] not in ("none", "fp"):
            return None
        obj = abtem.PotentialArray(data((4, 6, 5), np.float32), slice_thickness=(0.5, 1.0, 1.0, 1.5), sampling=(0.2, 0.25), exit_planes=(0, 2), ensemble_axes_metadata=axes, metadata=md)
    elif cls == "SMatrixArray":
        if c["axes"] not in ("none",):
            return None
        S = abtem.SMatrix(semiangle_cutoff=15, energy=1e5, gpts=(12, 12), extent=(5, 5), interpolation=1, downsample=False)
        obj = S.build(lazy=False)
        obj._metadata = dict(obj.metadata, **{k: v for k, v in md.items()})
    else:
        raise KeyError(cls)
    return obj


ROUNDED = set()


def deep_equal(a, b, path="metadata"):
    """None if equal, else a description (NumPy scalars == Python scalars of equal value; tuples may come back as lists)"""
    if isinstance(a, (np.floating, np.integer, np.bool_)):
        a = a.item()
    if isinstance(b, (np.floating, np.integer, np.bool_)):
        b = b.item()
    if isinstance(a, dict) or isinstance(b, dict):
        if not (isinstance(a, dict) and isinstance(b, dict)):
            return "%s: %r vs %r" % (path, type(a).__name__, type(b).__name__)
        if set(map(str, a)) != set(map(str, b)):
            return "%s: keys %r vs %r" % (path, sorted(map(str, a)), sorted(map(str, b)))
        for k in a:
            d = deep_equal(a[k], b[k] if k in b else b[str(k)], path + "." + str(k))
            if d:
                return d
        return None
    if isinstance(a, np.ndarray) or isinstance(b, np.ndarray):
        if not np.array_equal(np.asarray(a), np.asarray(b)):
            return "%s: array %r vs %r" % (path, a, b)
        return None
    if isinstance(a, (list, tuple)) or isinstance(b, (list, tuple)):
        if not (isinstance(a, (list, tuple)) and isinstance(b, (list, tuple))) or len(a) != len(b):
            return "%s: %r vs %r" % (path, a, b)
        if isinstance(a, tuple) != isinstance(b, tuple):
            return "%s: tuple became list (%r vs %r)" % (path, a, b)
        for i, (x, y) in enumerate(zip(a, b)):
            d = deep_equal(x, y, "%s[%d]" % (path, i))
            if d:
                return d
        return None
    if isinstance(a, float) and isinstance(b, (float, int)) or isinstance(b, float) and isinstance(a, (float, int)):
        if np.isnan(a) and np.isnan(b):
            return None
        # derived quantities (sampling = extent / gpts, float32 wave vectors) may come back rounded: 1e-6 relative is float32 precision
        if abs(a - b) <= 1e-6 * max(abs(a), abs(b), 1e-300):
            if a != b:
                ROUNDED.add(path.split("[")[0])
            return None
        return "%s: %r vs %r" % (path, a, b)
    if a != b:
        return "%s: %r vs %r" % (path, a, b)
    return None


def compare(orig, back, bad):
    from abtem.core.axes import axis_to_dict

    if type(orig) is not type(back):
        bad("type", "type %s became %s" % (type(orig).__name__, type(back).__name__))
        return
    a = np.asarray(orig.compute().array if orig.is_lazy else orig.array)
    b = np.asarray(back.compute().array if back.is_lazy else back.array)
    if a.dtype != b.dtype:
        bad("dtype", "dtype %s became %s" % (a.dtype, b.dtype))
    if a.shape != b.shape or not np.array_equal(a, b):
        bad("array", "array differs after the round trip (shapes %r, %r)" % (a.shape, b.shape))
    if len(orig.axes_metadata) != len(back.axes_metadata):
        bad("axes/count", "%d axes became %d" % (len(orig.axes_metadata), len(back.axes_metadata)))
    else:
        for i, (x, y) in enumerate(zip(orig.axes_metadata, back.axes_metadata)):
            if type(x) is not type(y):
                bad("axes/type", "axis %d: %s became %s" % (i, type(x).__name__, type(y).__name__))
                continue
            # field-by-field through dataclasses, NOT through abTEM's own axis_to_dict (the serialiser under test must not be the oracle)
            import dataclasses

            fx = {f.name: getattr(x, f.name) for f in dataclasses.fields(x)}
            fy = {f.name: getattr(y, f.name) for f in dataclasses.fields(y)}
            d = deep_equal(fx, fy, "axis%d" % i)
            if d:
                bad("axes/fields/" + type(x).__name__, d)
    d = deep_equal(dict(orig.metadata), dict(back.metadata))
    if d:
        bad("metadata", d)
    for attr in ("sampling", "slice_thickness", "exit_planes", "fftshift", "reciprocal_space", "radial_offset", "azimuthal_offset", "energy"):
        try:
            x, y = getattr(orig, attr), getattr(back, attr)
        except Exception:  # noqa: BLE001  (not every class defines every attribute; PolarMeasurements.sampling raises by design)
            continue
        if True:
            if deep_equal(x if not isinstance(x, tuple) else list(x), y if not isinstance(y, tuple) else list(y)):
                bad("attribute/" + attr, "%s: %r became %r" % (attr, x, y))


def run_case(c):
    import abtem

    viol = []

    def bad(key, msg):
        if sum(1 for v in viol if v["key"] == key) < 2:
            viol.append({"key": key, "msg": "%s (%s)" % (msg, c)})

    base = "/dev/shm" if os.path.isdir("/dev/shm") else None
    tmp = tempfile.mkdtemp(prefix="c30_", dir=base)
    try:
        url = os.path.join(tmp, "obj.zip" if c["store"] == "zip" else "obj.zarr")
        if c["cls"] == "LIST":
            from abtem.array import ComputableList

            objs = [make(dict(c, cls="Images")), make(dict(c, cls="DiffractionPatterns", axes="ordinal"))]
            if c.get("same"):  # three objects of the SAME class and shape with different content (what detectors=[...] of one kind produce)
                objs = [make(dict(c, cls="Images")) for _ in range(3)]
                for k, o in enumerate(objs):
                    o._array = np.asarray(o.array) + np.float32(10.0 * k)
            if c["lazy"]:
                objs = [o.ensure_lazy() for o in objs]
            ComputableList(objs).to_zarr(url)
            back = abtem.from_zarr(url)
            back = back if isinstance(back, (list, tuple)) else [back]
            if len(back) != len(objs):
                bad("list/length", "a ComputableList of %d came back with %d items" % (len(objs), len(back)))
            else:
                # every subset of the loaded lazy objects evaluated in ONE dask graph must carry what was written (before compare() computes them one by one)
                import dask

                want = [np.asarray(o.compute().array if o.is_lazy else o.array) for o in objs]
                lazies = [b for b in back if getattr(b, "is_lazy", False)]
                if len(lazies) == len(back):
                    for r in range(2, len(back) + 1):
                        for sub in itertools.combinations(range(len(back)), r):
                            got = dask.compute(*[back[i].array for i in sub])
                            for i, g in zip(sub, got):
                                if np.asarray(g).shape != want[i].shape or not np.array_equal(np.asarray(g), want[i]):
                                    bad("list/joint-compute", "item %d of the list, computed together with items %r of the same file, does not hold the values that were written" % (i, [j for j in sub if j != i]))
                for o, b in zip(objs, back):
                    compare(o, b, bad)
            return {"viol": viol, "obs": "list", "tr": 2}
        obj = make(c)
        if obj is None:
            return {"viol": [], "obs": "n/a", "nt": False, "notes": ["%s does not take %s axes" % (c["cls"], c["axes"])]}
        if c["lazy"]:
            obj = obj.ensure_lazy()
        try:
            obj.to_zarr(url)
        except NotImplementedError as e:
            return {"viol": [], "obs": "unsupported", "nt": False, "notes": ["to_zarr unsupported for %s: %s" % (c["cls"], str(e)[:80])]}
        except TypeError as e:
            if "JSON" in str(e) or "serializ" in str(e):
                bad("write/metadata-not-serialisable/" + c["meta"], "to_zarr raised %s: %s" % (type(e).__name__, str(e)[:120]))
                return {"viol": viol, "obs": "write-raises"}
            raise
        back = abtem.from_zarr(url)
        compare(obj, back, bad)
    finally:
        shutil.rmtree(tmp, ignore_errors=True)
    notes = ["float fields that came back rounded within 1e-6 relative: %s" % ", ".join(sorted(ROUNDED))] if ROUNDED else []
    ROUNDED.clear()
    return {"viol": viol, "obs": "ok" if not viol else viol[0]["key"], "nt": c["axes"] != "none" or c["meta"] != "empty", "tr": 2, "notes": notes}
