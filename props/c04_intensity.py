"""C04 — wave propagation never creates intensity; vacuum propagation is reversible.

Spaces:
 K  kernels   Fresnel propagator array for grids x energies x dz in {+-0.5, +-2, 7.3} x tilt in {0, (3,-2), (20,20)} x order
              in {1,2}: EVERY entry has modulus <= 1 and modulus equal to the antialias aperture's value there (for a
              Fourier-diagonal operator this is an exhaustive statement about that grid); antialias aperture in [0,1];
              transmission function of V in {0, +-large, seeded} has unit modulus.
 M  steps     potentials (A0..A3, infinite/finite) x slicings x builder x tilt x order x conjugate/transpose: with
              exit_planes=1 the intensity sum |psi|^2 is non-increasing from plane to plane.
 V  vacuum    the COMPLETE Fourier basis of each grid restricted to the fully transmitted band, plus seeded band-limited
              waves: propagate(dz) preserves sum |psi|^2 and propagate(-dz) after propagate(dz) is the identity.
"""
import itertools

import numpy as np

META = dict(
    engines=["product"],
    technique="exhaustive enumeration over grids/energies/distances/tilts/orders incl. the complete Fourier basis of each grid; invariants checked on every entry and every slice",
    text="Every entry of every Fresnel propagator (4-6 grids x 1-3 energies x 5 distances x 3 tilts x 2 orders) is checked for modulus <= 1 and equality "
         "with the antialias aperture; every multislice step of 4 atomic models x 2 projections x 3 slicings x builders x tilts x orders x "
         "conjugate/transpose is checked for non-increasing intensity; every Fourier basis wave inside the transmitted band of each grid is "
         "propagated forth and back.",
    note="Bound: grids <= 16x12 pixels, <= 4 slices. Slack 5e-4 of the intensity per slice for the step inequality (the band-limited transmission function overshoots "
         "on these coarse grids; largest increase measured on this tree 8e-5), 2e-6 for kernel moduli, 2e-5 for reversibility.",
)
SLACK = 5e-4  # relative intensity increase allowed per slice (band-limiting the transmission function overshoots on these coarse grids)
GRIDS = [((8, 8), (0.4, 0.4)), ((9, 9), (0.35, 0.35)), ((8, 9), (0.4, 0.35)), ((12, 10), (0.3, 0.45)), ((16, 12), (0.25, 0.25)), ((15, 12), (0.25, 0.3))]
DZ = [0.5, -0.5, 2.0, -2.0, 7.3]
TILTS = [(0.0, 0.0), (3.0, -2.0), (20.0, 20.0)]


def check(ctx):
    q = ctx.quick
    grids = range(4) if q else range(len(GRIDS))
    energies = [100e3] if q else [60e3, 100e3, 300e3]
    K = [{"space": "K", "g": g, "e": e, "dz": dz, "tilt": list(t), "order": o} for g, e, dz, t, o in itertools.product(grids, energies, DZ, TILTS, (1, 2))]
    K += [{"space": "K", "g": g, "e": 100e3, "what": "transmission"} for g in grids]
    M = []
    for a, proj, st, b, tilt, order, conj, tr in itertools.product(("A0", "A1", "A2", "A3"), ("infinite", "finite"), (2.0, 1.0, [1.5, 2.5]), ("probe", "pw"),
                                                                    ((0.0, 0.0), (10.0, -6.0)), (1, 2), (False, True), (False, True)):
        if a == "A0" and st != 1.0:
            continue  # 2 A cell: needs 1 A slices to have more than one exit plane
        if q and (conj or tr) and not (order == 1 and tilt == (0.0, 0.0)):
            continue
        if q and proj == "finite" and (order == 2 or b == "pw"):
            continue
        M.append({"space": "M", "atoms": a, "proj": proj, "st": st, "b": b, "tilt": list(tilt), "order": order, "conj": conj, "transpose": tr})
    V = [{"space": "V", "g": g, "e": e, "dz": dz, "order": o} for g, e, dz, o in itertools.product(grids, energies, (2.0, 7.3), (1, 2))]
    ctx.run(K, "run_case", rule="K: every kernel entry; non-trivial = all", space="K kernels")
    ctx.run(M, "run_case", rule="M: every slice step of every simulation", space="M steps")
    ctx.run(V, "run_case", rule="V: complete Fourier basis inside the band + seeded waves", space="V vacuum")
    # H: ONE propagator object is used for a sequence of different band-limited waves of the same shape (all orders of 3 waves with
    # different norms x in-place / out-of-place x forward then back): each must keep its own intensity and come back unchanged
    Hc = [{"space": "H", "g": g, "e": 100e3, "dz": dz, "perm": list(pm), "in_place": ip} for g in (grids if q else range(len(GRIDS)))
          for dz in (2.0,) for pm in itertools.permutations(range(3)) for ip in (False, True)]
    ctx.run(Hc, "run_case", rule="H: one propagator object over all orders of 3 different waves, in place and out of place", space="H propagator reuse")


def waves_on(g, e, array=None, tilt=(0.0, 0.0)):
    import abtem

    gpts, samp = GRIDS[g]
    if array is None:
        array = np.ones(gpts, np.complex64)
    md = {}
    if tuple(tilt) != (0.0, 0.0):
        md = {"base_tilt_x": float(tilt[0]), "base_tilt_y": float(tilt[1])}
    return abtem.Waves(np.asarray(array, np.complex64), energy=e, sampling=samp, metadata=md)


def run_case(c):
    return {"K": run_K, "M": run_M, "V": run_V, "H": run_H}[c["space"]](c)


def run_H(c):
    import abtem
    from abtem.antialias import antialias_aperture
    from abtem.multislice import FresnelPropagator
    from mc.compare import rng

    gpts, samp = GRIDS[c["g"]]
    aa = np.asarray(antialias_aperture(gpts, samp, np))
    r = rng("c04h", c["g"])
    waves = []
    for i in range(3):  # three band-limited waves with clearly different norms
        F = (r.normal(size=gpts) + 1j * r.normal(size=gpts)) * (aa == 1.0)
        waves.append(((0.5 + i) * np.fft.ifft2(F)).astype(np.complex64))
    prop = FresnelPropagator()
    viol, worst, tr = [], 0.0, 0
    for k in c["perm"]:
        x = waves[k]
        i0 = float((np.abs(x.astype(np.complex128)) ** 2).sum())
        w = abtem.Waves(x.copy(), energy=c["e"], sampling=samp)
        fw = prop.propagate(w, c["dz"], in_place=c["in_place"])
        i1 = float((np.abs(np.asarray(fw.array).astype(np.complex128)) ** 2).sum())
        back = prop.propagate(fw, -c["dz"], in_place=c["in_place"])
        tr += 2
        e = abs(i1 / i0 - 1)
        d = float(np.abs(np.asarray(back.array) - x).max()) / float(np.abs(x).max())
        worst = max(worst, e / 1e-5, d / 2e-5)
        if not e <= 1e-5:
            viol.append({"key": "vacuum/intensity-changed/reused-propagator", "msg": "wave %d on a propagator used for waves %r before: intensity ratio %r (%s)" % (k, c["perm"][: c["perm"].index(k)], i1 / i0, c)})
        if not d <= 2e-5:
            viol.append({"key": "vacuum/not-reversible/reused-propagator", "msg": "wave %d on a propagator used for waves %r before: propagate(-dz) after propagate(dz) differs from the input by %.3g (%s)" % (
                k, c["perm"][: c["perm"].index(k)], d, c)})
    return {"viol": viol[:2], "obs": "reuse", "nt": True, "tr": tr, "ref": 3, "err": worst}


def run_K(c):
    import abtem
    from abtem.antialias import antialias_aperture
    from abtem.multislice import FresnelPropagator

    viol = []
    gpts, samp = GRIDS[c["g"]]
    aa = np.asarray(antialias_aperture(gpts, samp, np), dtype=np.float64)
    if aa.min() < 0 or aa.max() > 1 or not np.isfinite(aa).all():
        viol.append({"key": "antialias/range", "msg": "antialias aperture outside [0,1]: %r %r (%s)" % (aa.min(), aa.max(), c)})
    if aa[0, 0] != 1.0:
        viol.append({"key": "antialias/dc", "msg": "antialias aperture at zero frequency is %r" % aa[0, 0]})
    if c.get("what") == "transmission":
        from mc.compare import rng

        worst = 0.0
        for name, V in (("zero", np.zeros((1,) + gpts, np.float32)), ("large", np.full((1,) + gpts, 5e3, np.float32)), ("negative", np.full((1,) + gpts, -3e3, np.float32)),
                        ("seeded", (rng("c04", c["g"]).normal(size=(2,) + gpts) * 300).astype(np.float32))):
            p = abtem.PotentialArray(V, slice_thickness=1.0, sampling=samp)
            t = np.asarray(p.transmission_function(energy=c["e"]).array)
            d = float(np.abs(np.abs(t) - 1).max())
            worst = max(worst, d / 2e-6)
            if not d <= 2e-6:
                viol.append({"key": "transmission/modulus", "msg": "transmission function of a real potential (%s) has |t| - 1 = %.3g (%s)" % (name, d, c)})
        return {"viol": viol, "obs": "transmission", "tr": 4, "err": worst}
    w = waves_on(c["g"], c["e"], tilt=c["tilt"])
    k = np.asarray(FresnelPropagator._calculate_array(w, c["dz"], order=c["order"]))
    if k.shape != gpts:
        viol.append({"key": "kernel/shape", "msg": "propagator shape %r (%s)" % (k.shape, c)})
        return {"viol": viol}
    mod = np.abs(k.astype(np.complex128))
    e1 = float((mod - 1).max())
    e2 = float(np.abs(mod - aa).max())
    if not e1 <= 2e-6:
        viol.append({"key": "kernel/modulus>1", "msg": "propagator entry with modulus 1 + %.3g (%s)" % (e1, c)})
    if not e2 <= 2e-6:
        i = np.unravel_index(np.argmax(np.abs(mod - aa)), mod.shape)
        viol.append({"key": "kernel/modulus!=aperture", "msg": "|propagator| = %r but antialias aperture = %r at index %r (%s)" % (mod[i], aa[i], i, c)})
    return {"viol": viol, "obs": "%.4f" % mod.mean(), "tr": 1, "ref": int(mod.size), "err": max(e1, e2) / 2e-6}


def run_M(c):
    import abtem
    from abtem.multislice import FourierMultislice
    from mc import universe as U

    viol = []
    st = tuple(c["st"]) if isinstance(c["st"], list) else c["st"]
    pot = abtem.Potential(U.atoms(c["atoms"]), gpts=U.GPTS, slice_thickness=st, projection=c["proj"], exit_planes=1)
    alg = FourierMultislice(order=c["order"], conjugate=c["conj"], transpose=c["transpose"])
    tilt = tuple(c["tilt"])
    if c["b"] == "probe":
        b = abtem.Probe(semiangle_cutoff=25, energy=U.ENERGY, tilt=tilt)
        out = b.multislice(pot, scan=abtem.CustomScan([[1.0, 0.5], [2.2, 1.4]]), lazy=False, algorithm=alg)
    else:
        b = abtem.PlaneWave(energy=U.ENERGY, tilt=tilt)
        out = b.multislice(pot, lazy=False, algorithm=alg)
    arr = np.asarray(out.array)
    from abtem.core.axes import ThicknessAxis

    ax = [i for i, a in enumerate(out.ensemble_axes_metadata) if isinstance(a, ThicknessAxis)]
    if len(ax) != 1:
        return {"viol": [{"key": "steps/no-thickness-axis", "msg": "no thickness axis in %r (%s)" % (out.ensemble_axes_metadata, c)}]}
    inten = np.moveaxis((np.abs(arr.astype(np.complex128)) ** 2).sum(axis=(-2, -1)), ax[0], 0)  # (planes, ...)
    inc = (inten[1:] - inten[:-1]) / inten[:-1]
    worst = float(inc.max())
    if not worst <= SLACK:
        j = int(np.argmax(inc.reshape(inc.shape[0], -1).max(axis=1)))
        viol.append({"key": "steps/intensity-increase", "msg": "intensity grows by %.3g (relative) in slice %d: %r (%s)" % (worst, j, inten.reshape(inten.shape[0], -1)[:, 0].tolist(), c)})
    if not np.isfinite(inten).all() or inten[0].min() <= 0:
        viol.append({"key": "steps/invalid-intensity", "msg": "non-finite or zero incident intensity (%s)" % c})
    return {"viol": viol, "obs": "%.6f" % float(inten[-1].mean() / inten[0].mean()), "tr": inten.shape[0] - 1, "ref": inten.shape[0] - 1, "err": max(worst, 0.0) / SLACK}


def run_V(c):
    from abtem.antialias import antialias_aperture
    from abtem.multislice import FresnelPropagator
    from mc.compare import rng

    viol, worst, tr = [], 0.0, 0
    gpts, samp = GRIDS[c["g"]]
    aa = np.asarray(antialias_aperture(gpts, samp, np))
    inside = np.argwhere(aa == 1.0)
    n = int(np.prod(gpts))
    # complete Fourier basis of the fully transmitted band (batched) + 3 seeded band-limited mixtures
    basis = np.zeros((len(inside),) + gpts, np.complex128)
    for i, (p, q) in enumerate(inside):
        F = np.zeros(gpts, complex)
        F[p, q] = n
        basis[i] = np.fft.ifft2(F)
    r = rng("c04v", c["g"])
    mix = np.zeros((3,) + gpts, np.complex128)
    for i in range(3):
        F = (r.normal(size=gpts) + 1j * r.normal(size=gpts)) * (aa == 1.0)
        mix[i] = np.fft.ifft2(F)
    from abtem.core.axes import OrdinalAxis
    import abtem

    for name, batch in (("basis", basis), ("mixture", mix)):
        w = abtem.Waves(batch.astype(np.complex64), energy=c["e"], sampling=samp, ensemble_axes_metadata=[OrdinalAxis(values=tuple(range(len(batch))))])
        i0 = (np.abs(batch) ** 2).sum(axis=(-2, -1))
        prop = FresnelPropagator()
        fw = prop.propagate(w, c["dz"], order=c["order"])
        tr += 1
        i1 = (np.abs(np.asarray(fw.array).astype(np.complex128)) ** 2).sum(axis=(-2, -1))
        e = float(np.abs(i1 / i0 - 1).max())
        worst = max(worst, e / 1e-5)
        if not e <= 1e-5:
            k = int(np.argmax(np.abs(i1 / i0 - 1)))
            viol.append({"key": "vacuum/intensity-changed/" + name, "msg": "band-limited wave %d (%s): intensity ratio %r after propagating %r A (%s)" % (
                k, tuple(inside[k]) if name == "basis" else "seeded", float(i1[k] / i0[k]), c["dz"], c)})
        back = FresnelPropagator().propagate(fw, -c["dz"], order=c["order"])
        tr += 1
        d = float(np.abs(np.asarray(back.array) - batch).max()) / float(np.abs(batch).max())
        worst = max(worst, d / 2e-5)
        if not d <= 2e-5:
            viol.append({"key": "vacuum/not-reversible/" + name, "msg": "propagate(-dz) after propagate(dz) differs from the input by %.3g (%s)" % (d, c)})
        if name == "basis":
            # a basis wave must stay the same basis wave (pure phase)
            ph = np.asarray(fw.array).astype(np.complex128) / np.where(np.abs(batch) > 0, batch, 1)
            spread = float(np.abs(ph - ph[:, :1, :1]).max())
            if not spread <= 2e-5:
                viol.append({"key": "vacuum/basis-mixed", "msg": "a plane wave inside the band does not stay a plane wave (phase spread %.3g) (%s)" % (spread, c)})
    return {"viol": viol, "obs": "%d basis waves" % len(inside), "nt": len(inside) > 1, "tr": tr, "ref": len(inside) + 3, "err": worst}
