"""C17 — simulation grids stay consistent through any history of edits.

Explicit-state BFS on the real `abtem.core.grid.Grid`.  One search per initial grid (every definedness
pattern of extent/gpts/sampling x all 8 lock combinations x endpoint settings x 1 or 2 dimensions); the
transitions are the real setters (`extent`, `gpts`, `sampling` <- value or None), `match(partner)` and
`round_to_power()`.

canon(grid) = (extent, gpts, sampling, locks, endpoint, dimensions): this is the *complete* attribute set of
a Grid (no caches), so histories with equal canon have equal futures and may be merged.

Invariants, evaluated after every transition — also in the state left behind by an assignment that raised:
  I1  fully defined  =>  extent = gpts*sampling  (or (gpts-1)*sampling with endpoint)   [1e-9 relative]
  I2  reciprocal_space_sampling = 1/(gpts*sampling)
  I3  a locked quantity that had a value before the transition still has that value      [1e-9 relative]
  I4  (no locks only) a non-raising assignment of extent or gpts is what the grid then reports
"""
import itertools
import json

import numpy as np

META = dict(
    engines=["bfs"],
    technique="explicit-state BFS over edit histories of the real Grid object with invariants in every reachable state",
    text="For each of 320 initial grids (definedness x locks x endpoint x dimension) a breadth-first search applies every "
         "sequence of up to 3 (quick) / 5 (thorough) edits from a 17-operation alphabet through the real setters, match() and "
         "round_to_power(); states are deduplicated on the complete attribute tuple and the consistency / lock invariants are "
         "evaluated after every transition, including transitions that raise.",
    note="Bound: history length, value alphabet (3 extents, 3 gpts incl. 1, 3 samplings incl. incommensurate ones, None, tuples). "
         "Trusted: 1e-9 relative float comparison. Atomicity of a raising assignment is observed, not demanded.",
)

RTOL = 1e-9
EXTENTS = [2.0, 3.3, 10.0]
GPTS = [1, 4, 7]
SAMPLINGS = [0.5, 0.3, 3.0]


def ops(dim):
    o = []
    for e in EXTENTS:
        o.append(["extent", e])
    for n in GPTS:
        o.append(["gpts", n])
    for d in SAMPLINGS:
        o.append(["sampling", d])
    if dim == 2:
        o += [["extent", [2.0, 10.0]], ["gpts", [4, 7]], ["sampling", [0.5, 0.3]]]
    o += [["extent", None], ["match", 0], ["match", 1], ["match", 2], ["round", None]]
    return o


def partner(i, dim):
    from abtem.core.grid import Grid

    return [lambda: Grid(extent=5.0, gpts=10, dimensions=dim), lambda: Grid(gpts=6, dimensions=dim),
            lambda: Grid(sampling=0.25, dimensions=dim)][i]()


def initial_configs():
    out = []
    for dim in (1, 2):
        eps = [False, True] + ([[True, False]] if dim == 2 else [])
        for ep in eps:
            for has in itertools.product([0, 1], repeat=3):
                for locks in itertools.product([False, True], repeat=3):
                    out.append({"dim": dim, "endpoint": ep, "extent": 6.0 if has[0] else None, "gpts": 4 if has[1] else None,
                                "sampling": 0.75 if has[2] else None, "locks": list(locks)})
    return out


def make(cfg):
    from abtem.core.grid import Grid

    ep = cfg["endpoint"]
    return Grid(extent=cfg["extent"], gpts=cfg["gpts"], sampling=cfg["sampling"], dimensions=cfg["dim"],
                endpoint=tuple(ep) if isinstance(ep, list) else ep, lock_extent=cfg["locks"][0], lock_gpts=cfg["locks"][1],
                lock_sampling=cfg["locks"][2])


def canon(g):
    return (g.extent, g.gpts, g.sampling, g._lock_extent, g._lock_gpts, g._lock_sampling, g.endpoint, g.dimensions)


def close(a, b):
    if a is None or b is None:
        return a is None and b is None
    return all(abs(x - y) <= RTOL * max(abs(x), abs(y), 1e-300) or x == y for x, y in zip(a, b))


class _T:
    """attribute view of a canon tuple, so that the invariants can be evaluated on the pre-state as well"""

    def __init__(self, c):
        self.extent, self.gpts, self.sampling, self.endpoint = c[0], c[1], c[2], c[6]


def invariants(g, who="grid"):
    v = []
    if g.extent is not None and g.gpts is not None and g.sampling is not None:
        for i, (e, n, d, ep) in enumerate(zip(g.extent, g.gpts, g.sampling, g.endpoint)):
            expect = (n - 1) * d if ep else n * d
            if not (abs(e - expect) <= RTOL * max(abs(e), abs(expect), 1e-300)):
                sub = "endpoint+gpts=1" if (ep and n == 1) else ("endpoint" if ep else "periodic")
                v.append(("inconsistent/" + sub, "%s dim %d: extent=%r gpts=%r sampling=%r endpoint=%r (gpts%s*sampling=%r)" % (
                    who, i, e, n, d, ep, "-1" if ep else "", expect)))
        if isinstance(g, _T):
            return v
        try:
            rs = g.reciprocal_space_sampling
            for r, n, d in zip(rs, g.gpts, g.sampling):
                if n * d != 0 and abs(r - 1.0 / (n * d)) > RTOL * abs(r):
                    v.append(("reciprocal-sampling", "%s: reciprocal sampling %r != 1/(%r*%r)" % (who, r, n, d)))
        except ZeroDivisionError:
            pass
    return v


def apply(state, ev):
    g = state["g"]
    state["partner_viol"] = []
    name, val = ev[0], ev[1]
    v = tuple(val) if isinstance(val, list) else val
    try:
        if name == "extent":
            g.extent = v
        elif name == "gpts":
            g.gpts = v
        elif name == "sampling":
            g.sampling = v
        elif name == "match":
            p = partner(val, g.dimensions)
            g.match(p)
            state["partner_viol"] = invariants(p, "match partner")
        elif name == "round":
            g.round_to_power()
        return "ok"
    except Exception as e:  # noqa: BLE001
        return "raises:" + type(e).__name__


def check_transition(state, hist, ev, info, pre):
    g = state["g"]
    already = {k for k, _ in invariants(_T(pre))}  # reported at the transition that created them
    viol = [(k, m) for k, m in invariants(g) if k not in already]
    viol += state["partner_viol"]
    if info != "ok":
        viol = [(k if k.endswith("gpts=1") else k + "/after-raise", m + " after %r raised" % (ev,)) for k, m in viol]
    post = canon(g)
    names = ["extent", "gpts", "sampling"]
    for qi in range(3):
        if ev[0] == names[qi] and ev[1] is None:
            continue  # un-defining a quantity is not an assignment of a value (not covered by the statement)
        if pre[3 + qi] and pre[qi] is not None and not close(pre[qi], post[qi]):
            viol.append(("lock/%s-changed-by-%s" % (names[qi], ev[0]),
                         "locked %s changed %r -> %r by %r (%s); locks(extent,gpts,sampling)=%r" % (
                             names[qi], pre[qi], post[qi], ev, info, pre[3:6])))
    if info == "ok" and not any(pre[3:6]) and ev[0] in ("extent", "gpts") and ev[1] is not None:
        want = tuple(ev[1]) if isinstance(ev[1], list) else (ev[1],) * g.dimensions
        got = g.extent if ev[0] == "extent" else g.gpts
        if got is None or not close(tuple(float(x) for x in want), tuple(float(x) for x in got)):
            viol.append(("assign/ignored", "unlocked grid: %s <- %r but grid reports %r" % (ev[0], ev[1], got)))
    if info != "ok" and pre != post:
        state["changed_on_raise"] = True
    return viol


def explore(case):
    from mc.bfs import bfs

    cfg = case["init"]
    try:
        make(cfg)
    except Exception as e:  # constructor rejects this combination: nothing to explore
        return {"viol": [], "obs": "ctor-raises:" + type(e).__name__, "nt": False, "tr": 1}
    g0 = make(cfg)
    viol = [{"key": "ctor/" + k, "msg": m + " right after construction %r" % cfg} for k, m in invariants(g0)]
    # construction itself must respect locks trivially; nothing to compare with
    menu = ops(cfg["dim"])
    notes = set()

    def fresh():
        return {"g": make(cfg), "partner_viol": []}

    def chk(s, hist, ev, info, pre):
        out = check_transition(s, hist, ev, info, pre)
        if s.get("changed_on_raise"):
            notes.add("a raising assignment changed the grid (atomicity not demanded by the property)")
        return out

    r = bfs(fresh, apply, lambda s: menu, lambda s: canon(s["g"]), chk, case["depth"])
    counts = {}
    for key, msg, hist in r["violations"]:
        counts[key] = counts.get(key, 0) + 1
        if counts[key] <= 2:
            viol.append({"key": key, "msg": msg + "\ninit=%r history=%r" % (cfg, hist), "case": {"init": cfg, "history": hist},
                         "func": "replay_history"})
    return {"viol": viol, "obs": json.dumps(r["infos"], sort_keys=True), "nt": len(r["states"]) > 1, "tr": r["transitions"],
            "st": len(r["states"]), "ref": r["transitions"], "notes": sorted(notes), "nviol": sum(counts.values())}


def replay_history(case):
    state = {"g": make(case["init"]), "partner_viol": []}
    viol = [{"key": "ctor/" + k, "msg": m} for k, m in invariants(state["g"])]
    trace = ["init %r" % (canon(state["g"]),)]
    for ev in case["history"]:
        pre = canon(state["g"])
        info = apply(state, ev)
        trace.append("%r -> %s %r" % (ev, info, canon(state["g"])[:3]))
        for key, msg in check_transition(state, [], ev, info, pre):
            viol.append({"key": key, "msg": msg})
    return {"viol": viol, "obs": "\n".join(trace)}


def check(ctx):
    depth = 3 if ctx.quick else 5
    cases = [{"init": c, "depth": depth} for c in initial_configs()]
    res = ctx.run(cases, "explore", batch=4, rule="one BFS per initial grid (8 definedness patterns x 8 lock combinations x endpoint "
                  "x dimension = %d), histories of <= %d operations from a %d/%d-operation alphabet, deduplicated on the complete "
                  "attribute tuple; non-trivial = the search reached more than one state" % (len(cases), depth, len(ops(1)), len(ops(2))))
    ctx.extra["history_depth"] = depth
    ctx.extra["violating_transitions"] = sum(r.get("nviol", 0) for r in res)
