"""C16 — measurement resampling and source-size filtering conserve what they promise.

Space: DiffractionPatterns (shapes odd/even/mixed, anisotropic sampling, ensembles) x interpolate sampling in {'uniform',
3 floats, tuple}; Images x interpolate(method='fft') to the same grid, to integer multiples, to co-prime sizes, up and down,
lazy/eager; 4-D data (scan 3x4 x pattern 9x8, and polar 4x3) x sigma in {0.3, 1.0, (0.5, 1.2)} x 3 limit pairs for the
commutation gaussian_source_size -> integrate vs integrate -> gaussian_filter (periodic), DiffractionPatterns and
PolarMeasurements, lazy and eager; the same commutation on 6x8 scans with a non-scan ensemble axis before / after / on both
sides of the scan axes x lazy block layouts of the scan {one block, (3,3)x(4,4), all ones, ragged (4,2)x(1,5,2)}.
Oracle: sum of every pattern preserved; identity on the same grid; image mean preserved; the two orders of
filtering and integrating agree.
"""
import itertools

import numpy as np

META = dict(
    engines=["product"],
    technique="exhaustive enumeration of measurement shapes x target samplings/grids x sigmas x limits x lazy/eager; conservation laws and a documented commutation as oracle",
    text="Every combination of 5 pattern shapes / samplings x 6 target samplings, 4 image shapes x 7 target grids, and 2 measurement kinds x 3 sigmas x 3 "
         "integration limits x lazy/eager is executed and checked for preservation of each pattern's total intensity, identity on the same grid, "
         "preservation of the image mean, and equality of 'filter then integrate' with 'integrate then periodic Gaussian filter'.",
    note="Bound: patterns <= 12x11, images <= 12x10, scans 3x4. Tolerances: sums 1e-5, identity 1e-6 of max, commutation 1e-5 (float32).",
)
DPS = [((9, 8), (0.05, 0.08)), ((8, 8), (0.05, 0.05)), ((11, 7), (0.04, 0.09)), ((12, 11), (0.06, 0.03)), ((7, 7), (0.1, 0.07))]
TARGETS = ["uniform", 0.05, 0.083, 0.031, [0.06, 0.04], 0.12]
IMS = [((8, 6), (0.25, 0.3)), ((9, 9), (0.2, 0.2)), ((12, 10), (0.1, 0.15)), ((7, 10), (0.3, 0.2))]
IM_TARGETS = ["same", "x2", "x3", [5, 7], [13, 11], [16, 9], [6, 5]]


def check(ctx):
    cases = []
    for d, t, ens, lazy in itertools.product(range(len(DPS)), range(len(TARGETS)), ((), (2, 3)), (False, True)):
        if ctx.quick and lazy and (d + t) % 2:
            continue
        cases.append({"kind": "dp", "dp": d, "target": t, "ens": list(ens), "lazy": lazy})
        if ens:  # difference patterns (specimen - reference): members with negative, positive and mixed-sign totals
            cases.append({"kind": "dp", "dp": d, "target": t, "ens": list(ens), "lazy": lazy, "signed": True})
    for i, t, lazy in itertools.product(range(len(IMS)), range(len(IM_TARGETS)), (False, True)):
        cases.append({"kind": "im", "im": i, "target": t, "lazy": lazy})
    for what, s, lim, lazy in itertools.product(("dp", "polar"), (0.3, 1.0, [0.5, 1.2]), range(3), (False, True)):
        cases.append({"kind": "source", "what": what, "sigma": s, "lim": lim, "lazy": lazy})
    # layouts: a non-scan ensemble axis before / after the scan axes x every way the lazy scan can be split into dask blocks
    for what, s, lead, chunks in itertools.product(("dp", "polar"), (0.3, [0.5, 1.2]), ("lead", "trail", "both"), ("eager", "one", "split", "ones", "ragged")):
        if ctx.quick and what == "polar" and chunks in ("ones", "one"):
            continue
        cases.append({"kind": "source", "what": what, "sigma": s, "lim": 1, "lazy": chunks != "eager", "lead": lead, "chunks": chunks})
    ctx.run(cases, "run_case", rule="dp: (pattern shape/sampling, target, ensemble, lazy); im: (image, target grid, lazy); source: (kind, sigma, limits, lazy); non-trivial = grid changes")


def run_case(c):
    import abtem
    from abtem import measurements as M
    from abtem.core.axes import OrdinalAxis, ScanAxis
    from mc.compare import rng

    viol, worst = [], 0.0

    def bad(key, msg):
        viol.append({"key": key, "msg": "%s (%s)" % (msg, c)})

    if c["kind"] == "dp":
        shape, samp = DPS[c["dp"]]
        ens = tuple(c["ens"])
        r = rng("c16dp", c["dp"], ens)
        arr = r.random(size=ens + shape).astype(np.float32) + 0.05
        if c.get("signed"):
            off = np.linspace(-0.9, 0.4, int(np.prod(ens))).reshape(ens).astype(np.float32)  # totals from clearly negative to clearly positive
            arr = arr + off[..., None, None]
        axes = [OrdinalAxis(values=tuple(range(n))) for n in ens]
        dp = M.DiffractionPatterns(arr, sampling=samp, ensemble_axes_metadata=axes, metadata={"energy": 1e5})
        if c["lazy"]:
            dp = dp.ensure_lazy()
        t = TARGETS[c["target"]]
        t = tuple(t) if isinstance(t, list) else t
        try:
            out = dp.interpolate(sampling=t)
            out = out.compute() if c["lazy"] else out
        except Exception as e:  # noqa: BLE001
            return {"viol": [], "obs": "raises:" + type(e).__name__, "nt": False, "notes": ["DiffractionPatterns.interpolate(%r) raises %s" % (t, type(e).__name__)]}
        a = np.asarray(out.array, dtype=np.float64)
        s0 = arr.astype(np.float64).sum(axis=(-2, -1))
        s1 = a.sum(axis=(-2, -1))
        e = float(np.abs(s1 / s0 - 1).max()) if not c.get("signed") else float((np.abs(s1 - s0) / np.abs(arr.astype(np.float64)).sum(axis=(-2, -1))).max())
        worst = e / 1e-5
        if not e <= 1e-5:
            bad("dp/intensity-not-preserved", "interpolate(sampling=%r): pattern sums change by %.3g (relative); shapes %r -> %r" % (t, e, shape, a.shape[-2:]))
        if a.shape[:-2] != ens:
            bad("dp/ensemble-shape", "ensemble shape %r became %r" % (ens, a.shape[:-2]))
        if not c.get("signed") and (a < -1e-7).any():
            bad("dp/negative", "interpolated pattern has negative values")
        return {"viol": viol, "obs": "%r" % (a.shape[-2:],), "nt": a.shape[-2:] != shape, "err": worst}
    if c["kind"] == "im":
        shape, samp = IMS[c["im"]]
        r = rng("c16im", c["im"])
        arr = r.normal(size=(2,) + shape).astype(np.float32)
        im = abtem.Images(arr, sampling=samp, ensemble_axes_metadata=[OrdinalAxis(values=(0, 1))])
        if c["lazy"]:
            im = im.ensure_lazy()
        t = IM_TARGETS[c["target"]]
        gpts = shape if t == "same" else ((shape[0] * 2, shape[1] * 2) if t == "x2" else ((shape[0] * 3, shape[1] * 3) if t == "x3" else tuple(t)))
        out = im.interpolate(gpts=gpts, method="fft")
        out = out.compute() if c["lazy"] else out
        a = np.asarray(out.array, dtype=np.float64)
        if a.shape[-2:] != tuple(gpts):
            bad("im/shape", "interpolate(gpts=%r) gave shape %r" % (gpts, a.shape))
            return {"viol": viol}
        scale = float(np.abs(arr).max())
        if t == "same":
            e = float(np.abs(a - arr).max()) / scale
            worst = e / 1e-6
            if not e <= 1e-6:
                bad("im/identity", "fft interpolation to the same grid changes the image by %.3g" % e)
        e = float(np.abs(a.mean(axis=(-2, -1)) - arr.astype(np.float64).mean(axis=(-2, -1))).max()) / scale
        worst = max(worst, e / 1e-6)
        if not e <= 1e-6:
            bad("im/mean", "fft interpolation %r -> %r changes the image mean by %.3g of max|image|" % (shape, gpts, e))
        if t in ("x2", "x3"):
            k = 2 if t == "x2" else 3
            odd_ok = shape[0] % 2 == 1 and shape[1] % 2 == 1
            e = float(np.abs(a[..., ::k, ::k] - arr).max()) / scale
            if odd_ok and not e <= 2e-6:
                bad("im/coincident-samples", "integer-factor upsampling of an odd-sized image does not pass through the original samples (%.3g)" % e)
        ext0 = (shape[0] * samp[0], shape[1] * samp[1])
        if abs(out.sampling[0] * gpts[0] - ext0[0]) > 1e-9 or abs(out.sampling[1] * gpts[1] - ext0[1]) > 1e-9:
            bad("im/extent", "extent changed: sampling %r x gpts %r vs %r" % (out.sampling, gpts, ext0))
        return {"viol": viol, "obs": "%r" % (gpts,), "nt": tuple(gpts) != shape, "err": worst}
    # ---------------------------------------------------------------------------------------------- source size commutation
    from scipy.ndimage import gaussian_filter

    r = rng("c16src", c["what"])
    lead = c.get("lead")
    scan = (6, 8) if lead else (3, 4)
    ssamp = (0.5, 0.4)
    axes = [ScanAxis(label="x", sampling=ssamp[0], units="Å"), ScanAxis(label="y", sampling=ssamp[1], units="Å")]
    pre = [OrdinalAxis(label="series", values=(0, 1))] if lead in ("lead", "both") else []
    post = [OrdinalAxis(label="frame", values=(0, 1, 2))] if lead in ("trail", "both") else []
    axes = pre + axes + post
    nscan0 = len(pre)
    scan_full = (2,) * len(pre) + scan + (3,) * len(post)
    sigma = tuple(c["sigma"]) if isinstance(c["sigma"], list) else (c["sigma"], c["sigma"])
    if c["what"] == "dp":
        arr = r.random(size=scan_full + (9, 8)).astype(np.float32)
        m = M.DiffractionPatterns(arr, sampling=(0.05, 0.06), ensemble_axes_metadata=axes, metadata={"energy": 1e5})
        lims = [(0.0, 5.0), (2.0, 7.0), (1.0, 4.5)][c["lim"]]
        integ = lambda x: x.integrate_radial(*lims)  # noqa: E731
    else:
        arr = r.random(size=scan_full + (4, 3)).astype(np.float32)
        m = M.PolarMeasurements(arr, radial_sampling=2.0, azimuthal_sampling=2 * np.pi / 3, ensemble_axes_metadata=axes, metadata={"energy": 1e5})
        lims = [(0.0, 4.0), (2.0, 8.0), (0.0, 8.0)][c["lim"]]
        integ = lambda x: x.integrate_radial(*lims)  # noqa: E731
    if c["lazy"]:
        m = m.ensure_lazy()
        ch = c.get("chunks", "one")
        if ch != "one":
            split = {"split": ((3, 3), (4, 4)), "ones": ((1,) * 6, (1,) * 8), "ragged": ((4, 2), (1, 5, 2))}[ch]
            m = m.rechunk(tuple((1,) * n for n in scan_full[:nscan0]) + split + tuple((n,) for n in scan_full[nscan0 + 2:]) + tuple((n,) for n in arr.shape[-2:]))
    a = integ(m.gaussian_source_size(sigma if sigma[0] != sigma[1] else sigma[0]))
    a = a.compute() if c["lazy"] else a
    # integration turns the scan axes into the (last two) image axes; the other ensemble axes stay in front
    spatial = [i for i, ax in enumerate(a.axes_metadata) if type(ax).__name__ in ("RealSpaceAxis", "ScanAxis")]
    a = np.asarray(a.array, dtype=np.float64)
    b0 = integ(m)
    b0 = np.asarray((b0.compute() if c["lazy"] else b0).array, dtype=np.float64)
    svec = [0.0] * b0.ndim
    if len(spatial) != 2 or b0.shape != a.shape:
        bad("source-size/result-axes", "integrated result has axes %r / shapes %r vs %r" % (spatial, a.shape, b0.shape))
        return {"viol": viol, "obs": "axes"}
    svec[spatial[0]], svec[spatial[1]] = sigma[0] / ssamp[0], sigma[1] / ssamp[1]
    b = gaussian_filter(b0, sigma=tuple(svec), mode="wrap")
    e = float(np.abs(a - b).max()) / float(np.abs(b).max())
    if not e <= 1e-5:
        bad("source-size/commutation/%s" % c["what"], "gaussian_source_size then integrate differs from integrate then Gaussian filter by %.3g (sigma %r, limits %r)" % (e, sigma, lims))
    # the abTEM image-level filter must agree too
    try:
        if lead:
            raise TypeError
        img = integ(m)
        img = img.compute() if c["lazy"] else img
        cimg = np.asarray(img.gaussian_filter(sigma if sigma[0] != sigma[1] else sigma[0], boundary="periodic").array, dtype=np.float64)
        e2 = float(np.abs(a - cimg).max()) / float(np.abs(b).max())
        if not e2 <= 1e-5:
            bad("source-size/commutation-images.gaussian_filter/%s" % c["what"], "differs from Images.gaussian_filter(periodic) by %.3g" % e2)
    except TypeError:
        pass
    return {"viol": viol, "obs": "ok" if not viol else viol[0]["key"], "tr": 3, "err": e / 1e-5}
