"""C24 — electron energy relations match relativistic kinematics.

Space: every energy on the grid {1..9} x 10^k eV (k = 0..6) and 10 MeV (thorough: also every integer keV 1..1000), the
neighbours E(1 +- 1e-6) of each, 8 reciprocal samplings; non-positive energies {0, -1, -1e5} through every entry
point.  Oracle: reference formulas with CODATA-2018 constants typed in here (not ase's): lambda = h c / sqrt(E(E+2mc^2)),
sigma = 2 pi m gamma e lambda / h^2, angular = reciprocal * lambda * 1e3; positivity; strict decrease between consecutive
energies; rejection of non-positive energies.
"""
import math

META = dict(
    engines=["product"],
    technique="exhaustive enumeration of an energy grid (1 eV .. 10 MeV) against an independent float64 reference",
    text="All grid energies (64 quick, +1000 thorough), their 1e-6 neighbours and 8 reciprocal samplings are pushed through "
         "energy2wavelength, energy2sigma, relativistic_mass_correction, reciprocal_space_sampling_to_angular_sampling and "
         "Accelerator.wavelength/sigma and compared with formulas typed in with CODATA-2018 constants; monotonicity is checked on "
         "every consecutive pair and every non-positive energy must be rejected at every entry point.",
    note="Bound: the energy grid. Tolerance 1e-6 relative (ase ships CODATA-2014, 8e-9 away), so a revision of constants cannot "
         "alarm while a formula error does.",
)

H = 6.62607015e-34
C = 299792458.0
E0 = 1.602176634e-19
ME = 9.1093837015e-31
RTOL = 1e-6
SAMPLINGS = [1e-4, 0.01, 0.037, 0.1, 0.25, 1.0, 3.3, 25.0]


def ref_wavelength(e):
    return H * C / math.sqrt(e * E0 * (e * E0 + 2 * ME * C * C)) * 1e10


def ref_gamma(e):
    return 1 + e * E0 / (ME * C * C)


def ref_sigma(e):
    # 2 pi m gamma e lambda / h^2  in 1/(V m) -> 1/(V Angstrom)
    return 2 * math.pi * ME * ref_gamma(e) * E0 * (ref_wavelength(e) * 1e-10) / H ** 2 * 1e-10


def energies(quick):
    es = [m * 10.0 ** k for k in range(0, 7) for m in range(1, 10)] + [1e7]
    if not quick:
        es += [1e3 * k for k in range(1, 1001)]
    return sorted(set(es))


def check(ctx):
    es = energies(ctx.quick)
    ctx.workers = 4
    cases = [{"kind": "value", "e": e} for e in es]
    cases += [{"kind": "pair", "lo": a, "hi": b} for a, b in zip(es[:-1], es[1:])]
    cases += [{"kind": "pair", "lo": e * (1 - 1e-6), "hi": e} for e in es] + [{"kind": "pair", "lo": e, "hi": e * (1 + 1e-6)} for e in es]
    cases += [{"kind": "reject", "e": e} for e in (0, 0.0, -1, -1.0, -1e5)]
    ctx.run(cases, "run_case", batch=50, rule="every grid energy (value checks incl. 8 samplings), every consecutive / 1e-6-neighbour "
            "pair (strict decrease), every non-positive energy x 6 entry points; all non-trivial")


def run_case(case):
    from abtem.core import energy as EN

    viol = []
    worst = 0.0

    def cmp(key, got, ref, what):
        nonlocal worst
        r = abs(got - ref) / abs(ref)
        worst = max(worst, r / RTOL)
        if not r <= RTOL:
            viol.append({"key": key, "msg": "%s: got %r, reference %r (rel %.3g)" % (what, got, ref, r)})

    if case["kind"] == "value":
        e = case["e"]
        lam = EN.energy2wavelength(e)
        sig = EN.energy2sigma(e)
        cmp("wavelength/formula", lam, ref_wavelength(e), "energy2wavelength(%r)" % e)
        cmp("sigma/formula", sig, ref_sigma(e), "energy2sigma(%r)" % e)
        cmp("gamma/formula", EN.relativistic_mass_correction(e), ref_gamma(e), "relativistic_mass_correction(%r)" % e)
        cmp("mass/formula", EN.energy2mass(e), ref_gamma(e) * ME, "energy2mass(%r)" % e)
        if not (lam > 0 and sig > 0):
            viol.append({"key": "positivity", "msg": "wavelength %r sigma %r at %r eV" % (lam, sig, e)})
        ang = EN.reciprocal_space_sampling_to_angular_sampling(tuple(SAMPLINGS), e)
        for s, a in zip(SAMPLINGS, ang):
            cmp("angular-sampling/formula", a, s * ref_wavelength(e) * 1e3, "angular sampling of %r 1/A at %r eV" % (s, e))
        acc = EN.Accelerator(energy=e)
        cmp("accelerator/wavelength", acc.wavelength, ref_wavelength(e), "Accelerator(%r).wavelength" % e)
        cmp("accelerator/sigma", acc.sigma, ref_sigma(e), "Accelerator(%r).sigma" % e)
        return {"viol": viol, "obs": "%.9g" % lam, "tr": 8, "err": worst}
    if case["kind"] == "pair":
        lo, hi = case["lo"], case["hi"]
        a, b = EN.energy2wavelength(lo), EN.energy2wavelength(hi)
        if not a > b:
            viol.append({"key": "wavelength/not-decreasing", "msg": "lambda(%r)=%r <= lambda(%r)=%r" % (lo, a, hi, b)})
        return {"viol": viol, "obs": "%.6g" % (a / b), "tr": 2}
    e = case["e"]
    entry = {
        "energy2wavelength": lambda: EN.energy2wavelength(e),
        "energy2sigma": lambda: EN.energy2sigma(e),
        "angular_sampling": lambda: EN.reciprocal_space_sampling_to_angular_sampling((0.1, 0.1), e),
        "Accelerator.wavelength": lambda: EN.Accelerator(e).wavelength,
        "Accelerator.sigma": lambda: EN.Accelerator(e).sigma,
    }
    obs = []
    for name, f in entry.items():
        try:
            val = f()
            viol.append({"key": "reject/" + name, "msg": "%s accepted the non-positive energy %r and returned %r" % (name, e, val)})
            obs.append("accepted")
        except Exception as ex:  # noqa: BLE001
            obs.append(type(ex).__name__)
    return {"viol": viol, "obs": ",".join(obs), "tr": len(entry)}
