"""C24 — electron energy relations match relativistic kinematics.

Space: every energy on the grid {1..9} x 10^k eV (k = 0..6) and 10 MeV (thorough: also every integer keV 1..1000), the
neighbours E(1 +- 1e-6) of each, 8 reciprocal samplings; every integer-valued grid energy additionally in 7 numeric
representations (python int, float32, int32, int64, uint32, 0-d int32 / float64 arrays: a fixed-width integer must not wrap); non-positive energies {0, -1, -1e5} through every entry
point.  Oracle: reference formulas with CODATA-2018 constants typed in here (not ase's): lambda = h c / sqrt(E(E+2mc^2)),
sigma = 2 pi m gamma e lambda / h^2, angular = reciprocal * lambda * 1e3; positivity; strict decrease between consecutive
energies; rejection of non-positive energies.
"""
import math

META = dict(
    engines=["product"],
    technique="exhaustive enumeration of an energy grid (1 eV .. 10 MeV) against an independent float64 reference",
    text="All grid energies (64 quick, +1000 thorough), their 1e-6 neighbours and 8 reciprocal samplings are pushed through "
         "energy2wavelength, energy2sigma, relativistic_mass_correction, reciprocal_space_sampling_to_angular_sampling and "
         "Accelerator.wavelength/sigma and compared with formulas typed in with CODATA-2018 constants; monotonicity is checked on "
         "every consecutive pair and every non-positive energy must be rejected at every entry point. Every integer grid energy is also passed in 7 numeric representations, and a float64 call after a call in another representation must equal the float64 formula on the library's constants to 1e-12 (purity histories).",
    note="Bound: the energy grid. Tolerance 1e-6 relative (ase ships CODATA-2014, 8e-9 away), so a revision of constants cannot "
         "alarm while a formula error does.",
)

H = 6.62607015e-34
C = 299792458.0
E0 = 1.602176634e-19
ME = 9.1093837015e-31
RTOL = 1e-6
SAMPLINGS = [1e-4, 0.01, 0.037, 0.1, 0.25, 1.0, 3.3, 25.0]


def ref_wavelength(e):
    return H * C / math.sqrt(e * E0 * (e * E0 + 2 * ME * C * C)) * 1e10


def ref_gamma(e):
    return 1 + e * E0 / (ME * C * C)


def ref_sigma(e):
    # 2 pi m gamma e lambda / h^2  in 1/(V m) -> 1/(V Angstrom)
    return 2 * math.pi * ME * ref_gamma(e) * E0 * (ref_wavelength(e) * 1e-10) / H ** 2 * 1e-10


def energies(quick):
    es = [m * 10.0 ** k for k in range(0, 7) for m in range(1, 10)] + [1e7]
    if not quick:
        es += [1e3 * k for k in range(1, 1001)]
    return sorted(set(es))


REPS = ["int", "float32", "int32", "int64", "uint32", "array0d-int32", "array0d-float64"]


def as_rep(e, rep):
    import numpy as np

    if rep is None:
        return e
    if rep == "int":
        return int(e)
    if rep.startswith("array0d-"):
        return np.array(e, dtype=rep.split("-")[1])
    return getattr(np, rep)(e)


def check(ctx):
    es = energies(ctx.quick)
    ctx.workers = 4
    cases = [{"kind": "value", "e": e} for e in es]
    # the same energies in every numeric representation a caller can hold them in (file metadata, array elements ...)
    cases += [{"kind": "value", "e": e, "rep": r} for e in es for r in REPS if float(e).is_integer()]
    cases += [{"kind": "pair", "lo": e, "hi": e + 1, "rep": r} for e in es for r in ("int32", "int64", "int") if float(e).is_integer()]
    cases += [{"kind": "pair", "lo": a, "hi": b} for a, b in zip(es[:-1], es[1:])]
    cases += [{"kind": "pair", "lo": e * (1 - 1e-6), "hi": e} for e in es] + [{"kind": "pair", "lo": e, "hi": e * (1 + 1e-6)} for e in es]
    # histories: the helpers are pure functions, so what they return for a float64 energy must not depend on an earlier call with the
    # numerically equal energy in another representation (energies e + 3 are used by no other case of this run)
    cases += [{"kind": "history", "e": e + 3.0, "rep": r} for e in es if float(e).is_integer() and e + 3.0 < 2 ** 24 for r in ("float32", "int32", "int")]
    # the sampling argument in every container a caller can hold it in; the SAME container is used for a series of energies (history) and
    # must come back untouched
    cases += [{"kind": "samplings", "container": c_} for c_ in ("tuple", "list", "ndarray-float64", "ndarray-float32", "ndarray-int")]
    cases += [{"kind": "reject", "e": e} for e in (0, 0.0, -1, -1.0, -1e5)]
    cases += [{"kind": "reject", "e": e, "rep": r} for e in (0, -1, -100000) for r in ("float32", "int32", "int64", "array0d-int32")]
    ctx.run(cases, "run_case", batch=50, rule="every grid energy (value checks incl. 8 samplings), every consecutive / 1e-6-neighbour "
            "pair (strict decrease), every non-positive energy x 6 entry points; all non-trivial")


def run_case(case):
    from abtem.core import energy as EN

    viol = []
    worst = 0.0

    def cmp(key, got, ref, what):
        nonlocal worst
        r = abs(got - ref) / abs(ref)
        worst = max(worst, r / RTOL)
        if not r <= RTOL:
            viol.append({"key": key, "msg": "%s: got %r, reference %r (rel %.3g)" % (what, got, ref, r)})

    rep = case.get("rep")
    if case["kind"] == "value":
        e = as_rep(case["e"], rep)
        lam = EN.energy2wavelength(e)
        sig = EN.energy2sigma(e)
        what = repr(e) if rep is None else "%s(%r)" % (rep, case["e"])
        k = "" if rep is None else "/rep"
        e0, e = e, float(case["e"])  # the reference is always evaluated on the float64 value
        cmp("wavelength/formula" + k, lam, ref_wavelength(e), "energy2wavelength(%s)" % what)
        cmp("sigma/formula" + k, sig, ref_sigma(e), "energy2sigma(%s)" % what)
        cmp("gamma/formula" + k, float(EN.relativistic_mass_correction(e0)), ref_gamma(e), "relativistic_mass_correction(%s)" % what)
        cmp("mass/formula" + k, float(EN.energy2mass(e0)), ref_gamma(e) * ME, "energy2mass(%s)" % what)
        if not (lam > 0 and sig > 0):
            viol.append({"key": "positivity", "msg": "wavelength %r sigma %r at %r eV" % (lam, sig, e)})
        ang = EN.reciprocal_space_sampling_to_angular_sampling(tuple(SAMPLINGS), e0)
        for s, a in zip(SAMPLINGS, ang):
            cmp("angular-sampling/formula" + k, a, s * ref_wavelength(e) * 1e3, "angular sampling of %r 1/A at %s eV" % (s, what))
        acc = EN.Accelerator(energy=e0)
        cmp("accelerator/wavelength" + k, acc.wavelength, ref_wavelength(e), "Accelerator(%s).wavelength" % what)
        cmp("accelerator/sigma" + k, acc.sigma, ref_sigma(e), "Accelerator(%s).sigma" % what)
        return {"viol": viol, "obs": "%.9g" % lam, "tr": 8, "err": worst}
    if case["kind"] == "samplings":
        import numpy as np

        base = [0.078125, 0.0651, 1.0, 25.0]
        mk = {"tuple": tuple, "list": list, "ndarray-float64": lambda v: np.array(v, dtype=np.float64), "ndarray-float32": lambda v: np.array(v, dtype=np.float32),
              "ndarray-int": lambda v: np.array([1, 2, 3, 25], dtype=np.int64)}[case["container"]]
        arg = mk(base)
        ref_vals = [float(x) for x in (arg.tolist() if hasattr(arg, "tolist") else arg)]
        snap = list(ref_vals)
        for e in (60e3, 100e3, 200e3, 300e3, 100e3):  # the same container for a whole energy series
            got = EN.reciprocal_space_sampling_to_angular_sampling(arg, e)
            for s_, a in zip(ref_vals, got):
                cmp("angular-sampling/container/" + case["container"], float(a), s_ * ref_wavelength(e) * 1e3, "angular sampling of %r 1/A (%s) at %r eV" % (s_, case["container"], e))
            now = [float(x) for x in (arg.tolist() if hasattr(arg, "tolist") else arg)]
            if now != snap:
                viol.append({"key": "angular-sampling/input-modified", "msg": "reciprocal_space_sampling_to_angular_sampling changed the caller's %s: %r -> %r" % (case["container"], snap, now)})
                break
        return {"viol": viol[:3], "obs": "samplings", "tr": 5, "err": worst}
    if case["kind"] == "history":
        from ase import units as UN  # the constant set the library itself uses

        e = float(case["e"])
        first = as_rep(e, rep)
        out = {}
        for name in ("energy2wavelength", "energy2sigma", "energy2mass", "relativistic_mass_correction"):
            f = getattr(EN, name)
            f(first)  # the earlier call, in the other representation
            out[name] = float(f(e))
        # the same formulas in plain float64 with the LIBRARY's constants: exact agreement is expected (observed <= 2 ulp)
        gam = 1 + UN._e * e / (UN._me * UN._c ** 2)
        lam = UN._hplanck * UN._c / math.sqrt(e * (2 * UN._me * UN._c ** 2 / UN._e + e)) / UN._e * 1.0e10
        want = {"energy2wavelength": lam, "relativistic_mass_correction": gam, "energy2mass": gam * UN._me,
                "energy2sigma": 2 * math.pi * gam * UN._me * UN.kg * UN._e * UN.C * lam / (UN._hplanck * UN.s * UN.J) ** 2}
        # energy2sigma's own unit bookkeeping may differ by a few ulp from this transcription
        for name, got in out.items():
            r = abs(got - want[name]) / abs(want[name])
            worst = max(worst, r / 1e-12)
            if not r <= 1e-12:
                viol.append({"key": "history/%s-after-%s-call" % (name, rep), "msg": "%s(%r) called after %s(%s(%r)) returns %r, the float64 formula gives %r (rel %.3g): the result depends on the call history" % (
                    name, e, name, rep, e, got, want[name], r)})
        return {"viol": viol, "obs": "history", "tr": 8, "err": worst}
    if case["kind"] == "pair":
        lo, hi = as_rep(case["lo"], rep), as_rep(case["hi"], rep)
        a, b = EN.energy2wavelength(lo), EN.energy2wavelength(hi)
        if not a > b:
            viol.append({"key": "wavelength/not-decreasing", "msg": "lambda(%r)=%r <= lambda(%r)=%r" % (lo, a, hi, b)})
        return {"viol": viol, "obs": "%.6g" % (a / b), "tr": 2}
    e = as_rep(case["e"], rep)
    entry = {
        "energy2wavelength": lambda: EN.energy2wavelength(e),
        "energy2sigma": lambda: EN.energy2sigma(e),
        "angular_sampling": lambda: EN.reciprocal_space_sampling_to_angular_sampling((0.1, 0.1), e),
        "Accelerator.wavelength": lambda: EN.Accelerator(e).wavelength,
        "Accelerator.sigma": lambda: EN.Accelerator(e).sigma,
    }
    obs = []
    for name, f in entry.items():
        try:
            val = f()
            viol.append({"key": "reject/" + name, "msg": "%s accepted the non-positive energy %r and returned %r" % (name, e, val)})
            obs.append("accepted")
        except Exception as ex:  # noqa: BLE001
            obs.append(type(ex).__name__)
    return {"viol": viol, "obs": ",".join(obs), "tr": len(entry)}
