"""C14 — diffraction pattern geometry is self-consistent.

Space: waves (seeded) on grids {(8,8), (9,9), (8,9), (12,10), (15,12), (16,16)} x energies x max_angle in {full, cutoff, valid,
several floats} x parity in {same, odd, even} x fftshift in {T, F} x return_complex; block_direct with radius in
{True, 5, 12.3, 30} on strictly positive patterns (so the zeroed set can be read off exactly) with and without a
semiangle_cutoff in the metadata, shifted and unshifted.
Oracle: cropped pattern == centred crop [n//2 - n'//2 : ...] of the shifted 'full' pattern; fftshift=False == ifftshift of
the fftshift=True pattern; shapes have the requested parity; block_direct zeroes exactly {alpha <= effective radius}
(alpha from fftfreq coordinates in the pattern's own layout) and leaves every other pixel bit-unchanged.
"""
import itertools

import numpy as np

META = dict(
    engines=["product"],
    technique="exhaustive enumeration of grids (odd/even) x angle keywords x parities x layouts; index-arithmetic reference crop and per-pixel blocking mask",
    text="For 6 grids, 1-2 energies, 7 max_angle settings, 3 parities, both layouts and real/complex output the pattern is compared pixel by pixel "
         "with the centred crop of the full pattern and with the inverse shift; for 4 block radii, with/without aperture metadata and both "
         "layouts, the set of zeroed pixels is compared exactly with the disc alpha <= effective radius and all other pixels must be unchanged.",
    note="Bound: grids <= 16 pixels. The effective radius of block_direct=True follows the documentation: the semiangle_cutoff in the metadata (plus one "
         "pixel margin) if present, else 1.0001 x the angular sampling.",
)
GRIDS = [((8, 8), (4.0, 4.0)), ((9, 9), (4.5, 4.5)), ((8, 9), (4.0, 4.5)), ((12, 10), (5.0, 4.0)), ((15, 12), (6.0, 5.0)), ((16, 16), (4.0, 4.0))]
ANGLES = ["full", "cutoff", "valid", 8.0, 15.0, 23.7, 40.0]


def check(ctx):
    q = ctx.quick
    energies = [100e3] if q else [60e3, 200e3]
    cases = []
    for g, e, a, par, cplx in itertools.product(range(len(GRIDS)), energies, range(len(ANGLES)), ("same", "odd", "even"), (False, True)):
        cases.append({"kind": "crop", "g": g, "e": e, "angle": a, "parity": par, "complex": cplx})
    for g, e, r, meta, shift in itertools.product(range(len(GRIDS)), energies, (True, 5.0, 12.3, 30.0), (False, True), (True, False)):
        cases.append({"kind": "block", "g": g, "e": e, "radius": r, "cutoff_meta": meta, "shift": shift, "via": "waves"})
        cases.append({"kind": "block", "g": g, "e": e, "radius": r, "cutoff_meta": meta, "shift": shift, "via": "pattern"})
    ctx.run(cases, "run_case", rule="crop: (grid, energy, max_angle, parity, complex) with both layouts inside; block: (grid, radius, metadata, layout, entry); "
            "non-trivial = the pattern is actually cropped / some pixel is blocked")


def make_waves(c, cutoff_meta=False):
    import abtem
    from mc.compare import rng

    gpts, ext = GRIDS[c["g"]]
    r = rng("c14", c["g"])
    arr = (r.normal(size=(2,) + gpts) + 1j * r.normal(size=(2,) + gpts)).astype(np.complex64) + 0.3
    from abtem.core.axes import OrdinalAxis

    md = {"semiangle_cutoff": 9.0} if cutoff_meta else {}
    return abtem.Waves(arr, energy=c["e"], extent=ext, ensemble_axes_metadata=[OrdinalAxis(values=(0, 1))], metadata=md)


def alpha_shifted(c, shape):
    """scattering angle [mrad] of every pixel of a SHIFTED pattern of this shape, from fftfreq"""
    from mc.ref.chi import wavelength

    gpts, ext = GRIDS[c["g"]]
    lam = wavelength(c["e"])
    out = []
    for n, L in zip(shape, ext):
        k = np.fft.fftshift(np.fft.fftfreq(n, 1.0 / n)) / L  # integer frequency index / extent
        out.append(k * lam * 1e3)
    return np.sqrt(out[0][:, None] ** 2 + out[1][None] ** 2)


def run_case(c):
    viol = []

    def bad(key, msg):
        if sum(1 for v in viol if v["key"] == key) < 2:
            viol.append({"key": key, "msg": "%s (%s)" % (msg, c)})

    gpts, ext = GRIDS[c["g"]]
    if c["kind"] == "crop":
        w = make_waves(c)
        ang = ANGLES[c["angle"]]
        kw = dict(parity=c["parity"], return_complex=c["complex"])
        try:
            full = np.asarray(w.diffraction_patterns(max_angle="full", parity="same", fftshift=True, return_complex=c["complex"]).array)
            s = w.diffraction_patterns(max_angle=ang, fftshift=True, **kw)
            u = w.diffraction_patterns(max_angle=ang, fftshift=False, **kw)
        except Exception as e:  # noqa: BLE001
            return {"viol": [], "obs": "raises:" + type(e).__name__, "nt": False, "notes": ["max_angle %r rejected on grid %r" % (ang, gpts)]}
        sa, ua = np.asarray(s.array), np.asarray(u.array)
        n0, m0 = full.shape[-2:]
        n1, m1 = sa.shape[-2:]
        if ang != "full":
            for n, name in ((n1, "x"), (m1, "y")):
                old = gpts[0] if name == "x" else gpts[1]
                want_even = {"same": old % 2 == 0, "odd": False, "even": True}[c["parity"]]
                if n < old and (n % 2 == 0) != want_even:  # an uncropped axis keeps the grid's own size
                    bad("parity", "shape %r for parity %r on grid %r" % ((n1, m1), c["parity"], gpts))
        if n1 > n0 or m1 > m0:
            # an angle beyond the simulated range: the pattern is zero-padded; the FULL pattern must be its centred crop
            if n1 < n0 or m1 < m0:
                return {"viol": [], "obs": "mixed pad/crop", "nt": False, "notes": ["max_angle %r pads one axis and crops the other on grid %r" % (ang, gpts)]}
            i0, j0 = n1 // 2 - n0 // 2, m1 // 2 - m0 // 2
            inner = sa[..., i0 : i0 + n0, j0 : j0 + m0]
            outer = sa.copy()
            outer[..., i0 : i0 + n0, j0 : j0 + m0] = 0
            if not np.array_equal(inner, full) or np.any(outer != 0):
                bad("crop/padded-not-centred", "max_angle=%r beyond the grid: the padded pattern does not contain the full pattern at its centre" % (ang,))
            if not np.array_equal(ua, np.fft.ifftshift(sa, axes=(-2, -1))):
                bad("layout/unshifted-not-ifftshift", "fftshift=False pattern is not ifftshift(fftshift=True pattern) for padded shape %r" % ((n1, m1),))
            return {"viol": viol, "obs": "%r padded" % ((n1, m1),), "nt": True, "tr": 3, "ref": 2}
        i0, j0 = n0 // 2 - n1 // 2, m0 // 2 - m1 // 2
        ref = full[..., i0 : i0 + n1, j0 : j0 + m1]
        if not np.array_equal(sa, ref):
            d = float(np.abs(sa - ref).max()) / max(float(np.abs(ref).max()), 1e-30)
            if d > 1e-6:
                bad("crop/not-centred-crop", "max_angle=%r parity=%r: pattern differs from the centred crop of the full pattern by %.3g (relative)" % (ang, c["parity"], d))
        ref_u = np.fft.ifftshift(sa, axes=(-2, -1))
        if not np.array_equal(ua, ref_u):
            alt = np.array_equal(ua, np.fft.fftshift(sa, axes=(-2, -1)))
            bad("layout/unshifted-not-ifftshift", "fftshift=False pattern is not ifftshift(fftshift=True pattern)%s for shape %r" % (
                " (it equals fftshift instead)" if alt else "", (n1, m1)))
        # sampling metadata and zero-frequency position
        if abs(s.sampling[0] - 1 / ext[0]) > 1e-9 or abs(s.sampling[1] - 1 / ext[1]) > 1e-9:
            bad("sampling", "pattern sampling %r, expected 1/extent %r" % (s.sampling, (1 / ext[0], 1 / ext[1])))
        return {"viol": viol, "obs": "%r" % ((n1, m1),), "nt": (n1, m1) != (n0, m0), "tr": 3, "ref": 2}
    # ---------------------------------------------------------------------------------------------- block_direct
    import abtem

    w = make_waves(c, c["cutoff_meta"])
    shift = c["shift"]
    base = w.diffraction_patterns(max_angle="full", parity="same", fftshift=shift)
    barr = np.asarray(base.array) + 1.0  # strictly positive so zeroed pixels are unambiguous
    from abtem.measurements import DiffractionPatterns

    pos = DiffractionPatterns(barr.astype(np.float32), sampling=base.sampling, fftshift=shift, ensemble_axes_metadata=base.ensemble_axes_metadata, metadata=dict(base.metadata))
    r = c["radius"]
    if c["via"] == "pattern":
        out = pos.block_direct() if r is True else pos.block_direct(radius=r)
        before = np.asarray(pos.array)
    else:
        out = w.diffraction_patterns(max_angle="full", parity="same", fftshift=shift, block_direct=r)
        before = np.asarray(base.array)
    oarr = np.asarray(out.array)
    # effective radius per the documentation
    from mc.ref.chi import wavelength

    lam = wavelength(c["e"])
    samp = (lam * 1e3 / ext[0], lam * 1e3 / ext[1])
    if r is True:
        eff = 9.0 if c["cutoff_meta"] else max(samp) * 1.0001
    else:
        eff = float(r)
    if c["cutoff_meta"]:
        eff += max(samp)
    alpha = alpha_shifted(c, oarr.shape[-2:])
    if not shift:
        alpha = np.fft.ifftshift(alpha)
    want_zero = alpha <= eff * (1 + 1e-6)
    ambiguous = np.abs(alpha - eff) <= 1e-4 * max(eff, 1.0)  # float32 ties at the rim
    zeroed = np.all(oarr == 0, axis=0) & np.all(before != 0, axis=0)
    wrong = (zeroed != want_zero) & ~ambiguous
    if wrong.any():
        idx = np.argwhere(wrong)[0]
        bad("block/%s/%s" % ("true" if r is True else "radius", "shifted" if shift else "unshifted"),
            "radius=%r (effective %.3f mrad): %d pixels wrongly %s, e.g. index %r at alpha=%.3f mrad; zeroed out to %.3f mrad" % (
                r, eff, int(wrong.sum()), "zeroed" if zeroed[tuple(idx)] else "kept", tuple(idx), alpha[tuple(idx)],
                float(alpha[zeroed].max()) if zeroed.any() else -1.0))
    keep = ~zeroed
    if not np.array_equal(oarr[..., keep], before[..., keep]):
        bad("block/changed-unblocked-pixels", "pixels outside the blocked disc were modified")
    return {"viol": viol, "obs": "%d zeroed" % int(zeroed.sum()), "nt": bool(zeroed.any()), "tr": 2, "ref": int(alpha.size)}
