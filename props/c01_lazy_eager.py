"""C01 — lazy and eager evaluation produce the same simulation results.

Four exhaustively enumerated spaces, all on the real implementation:
 A  product  builder x potential kind x exit planes x detector set x scan: one eager run, lazy runs for every
             max_batch in {1, 2, 'auto'}.  Oracle: same outcome class (ok / raises), same type, shape, dtype, values
             (2e-5), axes metadata and metadata; all lazy variants equal to each other at 5e-6 (only FFT code-path rounding).
 B  rechunk  the incident waves are built lazily and rechunked with EVERY composition of their ensemble axis before
             multislice / apply_ctf / diffraction_patterns; all equal (5e-6) and equal to eager.
 C  sched    the lazy task graph of a case is executed by our own dask scheduler (mc/dasksched.py) under EVERY
             linear extension of its abTEM tasks (cap -> deviation bound) with a mutation monitor on every task input;
             all schedules must return the same result (5e-6: FFTW may take another code path for a differently
             aligned buffer; a shared-state bug moves results by orders of magnitude more).
 R  reuse    one set of builder / potential / detector / scan OBJECTS is used for a sequence of eager and lazy runs; every run must equal
             the run on fresh objects (histories of length 4, both orders).
 J  joint    several different lazy simulations are evaluated in ONE dask graph - every subset of a member list - and each must equal
             the result it gives on its own (dask key collisions, shared layers).
 P  preempt  ONE preemption inside a task: a fused multislice block is parked at its k-th call into abTEM code (sys.settrace), another ready
             block runs to completion, the first resumes; every k (thorough) / a uniform stride (quick), both roles, for every distinct pair of task kinds that are ready together in multislice, PRISM and CTF pipelines (mc/preempt.py).
 D  threads  (race detector only, sampling, never the deciding step) the same graphs free-running on dask's threaded
             scheduler, 3 repetitions, compared with the synchronous result.
"""
import itertools

import numpy as np

META = dict(
    engines=["sched", "product", "preempt"],
    technique="stateless exploration of all task schedules of the real dask graph under a controlled scheduler (with mutation monitor), single-preemption exploration inside tasks at abTEM call granularity, joint-graph and object-reuse spaces + exhaustive eager/lazy product",
    text="Every combination of builder, 9 potential kinds, exit-plane settings, 6 detector sets, 5 scans and 3 max_batch values is run eagerly "
         "and lazily and compared (values, shape, type, axes, metadata, outcome class); incident waves are rechunked with every composition; "
         "and for every ensemble case the real task graph is executed under all linear extensions of its abTEM tasks (<= 120 quick / 720 "
         "thorough, else every completed deviation level 0, 1, 2, 3 that fits a budget of 400 / 600 runs per graph (quick: levels <= 2)) by a scheduler we own, with a per-task input-mutation monitor. One set of builder / potential / detector / scan objects is reused for eager-lazy run sequences (space R) and every subset of 5-6 different lazy simulations is evaluated in one dask graph (space J).",
    note="Task-atomic interleavings only: pre-emption inside a task is covered by the mutation monitor's commutation argument and a free-running "
         "threaded pass (sampling, reported as such). State the monitor cannot digest (FFTW wisdom, numba caches) is not modelled. Grids 16x12, "
         "<= 4 slices, <= 3 configurations, <= 6 positions. cpu only.",
)
RTOL = 2e-5  # eager vs lazy (different batch shapes -> possibly different FFT plans)
RTOL_SAME = 5e-6  # same arithmetic, different batching / schedule: only FFT code-path rounding may differ


def check(ctx):
    from mc import universe as U

    q = ctx.quick
    pots = U.POTENTIALS
    dets = U.DETECTORS
    eps = [None, 1] if q else [None, 1, 2, [0], [0, 2]]
    cases = []
    for p, ep, d in itertools.product(pots, eps, dets):
        for s in (["custom", "line", "grid", "grid_ep"] if q else ["point", "custom", "line", "grid", "grid_ep"]):
            for b in (["probe"] if q else ["probe", "probe_ab"]):
                cases.append({"b": b, "p": p, "ep": ep, "d": d, "s": s})
        for b in (["pw"] if q else ["pw", "pw_norm", "pw_tilt"]):
            cases.append({"b": b, "p": p, "ep": ep, "d": d, "s": "none"})
    if q:  # a single explicit exit plane that is not the last slice (the thorough tier has the full exit-plane alphabet)
        for p, d in itertools.product(("fp2", "fp1", "atoms", "crystal_fp"), ("waves", "annular")):
            cases.append({"b": "probe", "p": p, "ep": [0], "d": d, "s": "custom"})
    ctx.run(cases, "run_product", rule="A: builder x potential x exit planes x detector x scan, eager + lazy(max_batch 1, 2, auto); "
            "non-trivial = ensemble potential or scan with > 1 position (several blocks)", space="A product")
    # B: rechunk compositions
    rc = []
    for p, d in itertools.product(["atoms", "fp2"] if q else ["atoms", "fp2", "fp2mean", "crystal_fp"], ["waves", "annular", "pix"]):
        for n in ([3] if q else [3, 4]):
            rc.append({"p": p, "d": d, "n": n, "pipe": "multislice"})
    for n in ([3] if q else [3, 4]):
        rc.append({"p": None, "d": None, "n": n, "pipe": "ctf"})
        rc.append({"p": None, "d": None, "n": n, "pipe": "dp"})
    ctx.run(rc, "run_rechunk", rule="B: every composition of the incident waves' ensemble axis", space="B rechunk")
    # C: schedules
    sc = []
    if q:
        combos = [(p, ep, d, "custom", mb) for p in ("fp2", "fp3") for ep in (None, 1) for d in ("waves", "pix") for mb in (1, 2)]
        combos += [("fp2", None, "multi", "custom", 2), ("crystal_fp", None, "seg", "custom", 1), ("crystal", None, "pix", "custom", 1), ("crystal", 1, "annular", "grid", 2), ("atoms", 1, "annular", "grid", 2),
                   ("fp2mean", None, "annular", "custom", 1), ("ae2", 1, "annular", "custom", 1), ("fp2", None, "flex", "grid", 2)]
    else:
        combos = [x for x in itertools.product(["fp2", "fp3", "fp2mean", "ae2", "crystal_fp", "atoms", "array"], [None, 1],
                                               ["waves", "pix", "multi", "seg", "flex", "annular"], ["custom", "grid"], [1, 2, "auto"])]
    for p, ep, d, s, mb in combos:
        sc.append({"p": p, "ep": ep, "d": d, "s": s, "mb": mb, "cap": 120 if q else 720, "dev": 2 if q else 3, "max_runs": 400 if q else 600})
    res = ctx.run(sc, "run_schedules", batch=1, rule="C: all linear extensions of the abTEM tasks of the lazy graph (cap 120/720, else completed deviation "
                  "levels within a 400/600-run budget), mutation monitor on every task input", space="C schedules")
    ctx.extra["schedules_executed"] = sum(r.get("tr", 0) for r in res)
    ctx.extra["schedule_cases_exhaustive"] = sum(1 for r in res if r.get("exhaustive"))
    ctx.extra["schedule_cases_bounded"] = sum(1 for r in res if r.get("exhaustive") is False)
    import collections

    ctx.extra["schedule_cases_by_completed_deviation_bound"] = dict(collections.Counter(str(r.get("bound")) for r in res if r.get("exhaustive") is False))
    if any(r.get("exhaustive") is False for r in res):
        ctx.cap("some task graphs have more linear extensions than the cap: covered all schedules within the deviation bound instead")
    # R: the SAME builder / potential / detector / scan objects are used for a sequence of runs (eager, lazy, eager, lazy with another
    # max_batch, in all 4 orders of the first two): every run must equal the run on fresh objects (objects remember grids, limits, caches)
    R = []
    for p, d, s_ in itertools.product(pots, dets, ("custom", "grid_ep") if q else ("custom", "line", "grid", "grid_ep")):
        if q and (pots.index(p) + dets.index(d)) % 2:
            continue
        R.append({"space": "R", "b": "probe", "p": p, "ep": 1 if (pots.index(p) % 2) else None, "d": d, "s": s_})
    ctx.run(R, "run_reuse", rule="R: one set of objects reused for the run sequences (eager, lazy1, eager, lazy2) and (lazy1, eager, lazy2, eager) vs fresh objects", space="R object reuse")
    # J: several lazy simulations evaluated in ONE dask graph (every subset of a member list): each must give what it gives on its own
    J = [{"members": m} for m in JOINT_SETS[: (2 if q else len(JOINT_SETS))]]
    ctx.run(J, "run_joint", batch=1, rule="J: all subsets (size >= 2) of 5-6 different lazy simulations computed in one dask.compute call vs each on its own", space="J joint graphs")
    # P: ONE preemption inside a task: a fused multislice block is parked at its k-th call into abTEM code, a second ready block runs to
    # completion, the first resumes (both roles).  thorough: EVERY call event k; quick: a uniform stride of the call events (reported as a cap)
    PSIMS = [["ms", "crystal", None, "pix", "custom", 1], ["ms", "fp2", None, "waves", "custom", 1], ["prism"], ["ctf"],
             ["ms", "atoms", 1, "multi", "grid", 2], ["ms", "ae2", None, "flex", "grid", 1], ["ms", "crystal_fp", None, "seg", "custom", 1],
             ["build", "crystal"], ["build", "fp3"], ["build", "crystal_fp"]]
    nchunks = 8 if q else 16
    PC = [{"space": "P", "sim": sim, "point": j, "chunk": [ci, nchunks], "max_points": 40 if q else None}
          for sim in (PSIMS[:4] if q else PSIMS) for j in range(2 if q else 4) for ci in range(nchunks)]
    pres = ctx.run(PC, "run_preempt", batch=1, rule="P: single preemption of one task by another ready task, for every distinct pair of task kinds that are ready together "
                   "(first 2 pairs quick / 4 thorough), at every abTEM call event (thorough) / the first occurrence of every distinct call site (quick)", space="P preemption")
    ctx.extra["preemption_points_run"] = sum(r.get("tr", 0) for r in pres)
    ctx.extra["preemption_call_events_per_task"] = sorted({str(r.get("calls")) for r in pres})
    if q:
        ctx.cap("space P (quick): the first occurrence of every DISTINCT call site of each task are used as preemption points; the thorough tier runs every call event")
    # D: free-running threads (detector only)
    th = [dict(c, reps=3) for c in sc if c["mb"] == 1 and c["ep"] is None][: (6 if q else 40)]
    ctx.run(th, "run_threads", batch=1, rule="D: free-running threaded scheduler x3 vs synchronous (race detector, sampling)", space="D threads")
    ctx.assumptions.append("space C treats tasks as atomic; a single pre-emption of one task by one complete other task at abTEM call granularity is explored by space P; several pre-emptions, more than two tasks in flight and pre-emption inside NumPy / FFTW / numba code are covered only by the mutation monitor and the sampling threaded pass D")


# --------------------------------------------------------------------------------------------- A
def _outcome(f):
    try:
        return "ok", f()
    except Exception as e:  # noqa: BLE001
        return "raises:%s" % type(e).__name__, "%s: %s" % (type(e).__name__, str(e)[:200])


def _sim(c, lazy, mb="auto", scheduler=None):
    from mc import universe as U

    return U.simulate(c["b"], U.potential(c["p"], c["ep"]), U.detector(c["d"]), U.scan(c["s"]), lazy, mb, scheduler)


def _potclass(p):
    return "ensemble" if p in ("fp2", "fp2mean", "fp3", "fp1", "ae2", "crystal_fp") else "single"


def run_product(c):
    from mc import universe as U

    viol, worst = [], 0.0
    eo, ev = _outcome(lambda: _sim(c, False))
    lazies = {}
    for mb in (1, 2, "auto"):
        lo, lv = _outcome(lambda: _sim(c, True, mb))
        lazies[mb] = (lo, lv)
        tag = "%s/%s/ep=%s" % (_potclass(c["p"]), c["d"], "none" if c["ep"] is None else "set")
        if lo != eo:
            viol.append({"key": "outcome/%s|%s/%s" % (eo, lo, tag), "msg": "eager %s, lazy(max_batch=%r) %s: %s | %s (%s)" % (
                eo, mb, lo, ev if eo != "ok" else "", lv if lo != "ok" else "", c)})
        elif eo == "ok":
            why, e = U.compare_results(ev, lv, RTOL)
            worst = max(worst, e)
            if why:
                kind = "values" if "values" in why else ("axes" if "axes" in why else ("metadata" if "metadata" in why else "structure"))
                viol.append({"key": "eager-vs-lazy/%s/%s" % (kind, tag), "msg": "max_batch=%r: %s (%s)" % (mb, why, c)})
    oks = [(mb, v) for mb, (o, v) in lazies.items() if o == "ok"]
    for mb, v in oks[1:]:
        why, e = U.compare_results(oks[0][1], v, RTOL_SAME, what=("max_batch=%r" % oks[0][0], "max_batch=%r" % mb))
        worst = max(worst, e)
        if why:
            viol.append({"key": "lazy-depends-on-max_batch/%s" % _potclass(c["p"]), "msg": "%s (%s)" % (why, c)})
    nt = _potclass(c["p"]) == "ensemble" or c["s"] in ("custom", "line", "grid", "grid_ep")
    return {"viol": _dedupe(viol), "obs": eo if eo != "ok" else U.result_digest(ev), "nt": nt, "tr": 4, "ref": 3, "err": worst}


def _dedupe(viol):
    out, seen = [], set()
    for v in viol:
        if v["key"] not in seen:
            seen.add(v["key"])
            out.append(v)
    return out


# --------------------------------------------------------------------------------------------- B
def run_rechunk(c):
    import abtem
    from mc import universe as U
    from mc.compare import compositions

    n = c["n"]
    positions = [[0.3 * i, 0.2 * i * i] for i in range(n)]

    def pipeline(waves):
        if c["pipe"] == "multislice":
            out = waves.multislice(U.potential(c["p"]), detectors=U.detector(c["d"]))
        elif c["pipe"] == "ctf":
            out = waves.apply_ctf(abtem.CTF(defocus=40.0, semiangle_cutoff=20.0)).intensity()
        else:
            out = waves.diffraction_patterns(max_angle="valid")
        return out if isinstance(out, list) else [out]

    def incident(lazy):
        return abtem.Probe(semiangle_cutoff=25, energy=U.ENERGY, gpts=U.GPTS, extent=(4, 3)).build(abtem.CustomScan(positions), lazy=lazy)

    viol, worst = [], 0.0
    eager = pipeline(incident(False))
    digests = {}
    comps = compositions(n)
    for comp in comps:
        w = incident(True).rechunk((comp,))
        outs = [o.compute() for o in pipeline(w)]
        why, e = U.compare_results(eager, outs, RTOL)
        worst = max(worst, e)
        if why:
            viol.append({"key": "rechunk/eager-vs-lazy/%s" % c["pipe"], "msg": "chunks %r: %s (%s)" % (comp, why, c)})
        digests[comp] = outs
    first = digests[comps[0]]
    for comp in comps[1:]:
        why, e = U.compare_results(first, digests[comp], RTOL_SAME, what=("chunks %r" % (comps[0],), "chunks %r" % (comp,)))
        worst = max(worst, e)
        if why:
            viol.append({"key": "rechunk/depends-on-chunks/%s" % c["pipe"], "msg": "%s (%s)" % (why, c)})
    return {"viol": _dedupe(viol), "obs": U.result_digest(first), "nt": True, "tr": len(comps) + 1, "ref": len(comps), "err": worst}


# --------------------------------------------------------------------------------------------- C
def run_schedules(c):
    from mc import dasksched as S
    from mc import universe as U

    case = {"b": "probe", "p": c["p"], "ep": c["ep"], "d": c["d"], "s": c["s"]}
    try:
        sync = _sim(case, True, c["mb"])
    except Exception as e:  # noqa: BLE001  (outcome mismatches are space A's business)
        return {"viol": [], "obs": "raises:" + type(e).__name__, "nt": False, "tr": 1, "notes": ["case raises lazily; not scheduled"]}
    ref = [np.asarray(o.array) for o in sync]

    def same(a, b):
        from mc.compare import err

        return len(a) == len(b) and all(err(x, y, RTOL_SAME, atol=1e-30) <= 1.0 for x, y in zip(a, b))

    def execute(get):
        # one compute call per output is what abTEM does; here all outputs are computed in ONE graph so that the
        # scheduler sees every task of the case together
        import dask
        from mc import universe as U2

        b = U2.builder("probe")
        out = b.multislice(U2.potential(c["p"], c["ep"]), scan=U2.scan(c["s"]), detectors=U2.detector(c["d"]), lazy=True, max_batch=c["mb"])
        outs = out if isinstance(out, list) else [out]
        arrays = dask.compute(*[o.array for o in outs], scheduler=get)
        return [np.asarray(a) for a in arrays]

    viol = []
    try:
        r = S.explore(execute, cap=c["cap"], deviations=c["dev"], same=same, max_runs=c.get("max_runs"))
    except S.ScheduleDivergence as e:
        return {"viol": [{"key": "schedule/replay-divergence", "msg": "%s (%s)" % (e, c)}], "obs": "divergence", "tr": 1}
    if len(r["outcomes"]) > 1:
        viol.append({"key": "schedule/order-dependent-result", "msg": "%d distinct results over %d schedules (%s)" % (len(r["outcomes"]), r["runs"], c)})
    if r["outcomes"] and not any(same(ref, o) for o in r["outcomes"]):
        viol.append({"key": "schedule/differs-from-synchronous", "msg": "controlled schedules differ from dask's synchronous scheduler (%s)" % (c,)})
    if r["mutations"]:
        viol.append({"key": "schedule/task-mutates-shared-input", "msg": "tasks changed inputs that other tasks read: %r (%s)" % (r["mutations"][:3], c)})
    notes = ["tasks filled memoisation caches of shared objects (additions only): %s" % sorted({str(m[1][0])[:120] for m in r.get("memo_fills", [])})[:2]] if r.get("memo_fills") else []
    return {"notes": notes, "viol": viol, "obs": "%d heavy/%d tasks, %d schedules, %s" % (r["heavy"], r["tasks"], r["runs"], "all %s linear extensions" % r["linear_extensions"] if r["exhaustive"] else
                                                                       "all with <=%s deviations %r%s" % (r["bound"], r["level_sizes"], (", level %(deviations)d (%(schedules)d schedules) over budget" % r["skipped_level"]) if r["skipped_level"] else "")),
            "nt": r["heavy"] >= 2, "tr": r["runs"], "st": r["runs"], "ref": r["runs"], "exhaustive": r["exhaustive"], "bound": r["bound"]}


# --------------------------------------------------------------------------------------------- P
def run_preempt(c):
    import dask
    from mc import preempt as PR
    from mc import universe as U
    from mc.compare import err

    def same(a, b):
        return len(a) == len(b) and all(x.shape == y.shape and err(x, y, RTOL_SAME, atol=1e-30) <= 1.0 for x, y in zip(a, b))

    import abtem

    sim = c["sim"]

    def execute(get):
        if sim[0] == "ms":
            _, p, ep, d, s_, mb = sim
            out = U.builder("probe").multislice(U.potential(p, ep), scan=U.scan(s_), detectors=U.detector(d), lazy=True, max_batch=mb)
        elif sim[0] == "build":  # lazy potential build: the blocks of a CrystalPotential share their unit by reference
            out = U.potential(sim[1], None).build(lazy=True)
        elif sim[0] == "prism":
            S = abtem.SMatrix(potential=U.potential("fp2", None, gpts=(24, 24)), semiangle_cutoff=20, energy=100e3, interpolation=2)
            out = S.reduce(scan=abtem.CustomScan([[0.3, 0.4], [2.1, 1.7], [3.6, 2.9]]), ctf=abtem.CTF(semiangle_cutoff=20, energy=100e3, C10=abtem.distributions.from_values([10.0, 50.0])), lazy=True)
        else:
            w = abtem.Probe(semiangle_cutoff=25, energy=100e3, gpts=(16, 12), extent=(4, 3)).build(abtem.CustomScan([[0.5, 0.5], [1, 1], [2, 1.5]]), lazy=True, max_batch=1)
            out = w.apply_ctf(abtem.CTF(defocus=abtem.distributions.from_values([10.0, 40.0, 70.0]), semiangle_cutoff=20), max_batch=1).diffraction_patterns(max_angle="valid")
        outs = out if isinstance(out, list) else [out]
        return [np.asarray(a) for a in dask.compute(*[o.array for o in outs], scheduler=get)]

    pts = PR.distinct_points(execute)
    if c["point"] >= len(pts):
        return {"viol": [], "obs": "n/a", "nt": False, "tr": 1, "notes": ["fewer than %d distinct ready-together task-kind pairs" % (c["point"] + 1)]}
    nth, kinds = pts[c["point"]]
    roles = ("A-preempted-by-B",) if kinds[0] == kinds[1] else ("A-preempted-by-B", "B-preempted-by-A")  # two tasks of one kind: the roles are symmetric
    r = PR.explore_pair(execute, same, max_points=c["max_points"], nth_point=nth, chunk=tuple(c["chunk"]), sites=c["max_points"] is not None, roles=roles)
    viol = []
    if r["deviating"]:
        viol.append({"key": "preemption/result-depends-on-interleaving", "msg": "preempting a %s task by a %s task at call events %r changes the result (%s)" % (kinds[0], kinds[1], r["deviating"][:3], c)})
    return {"viol": viol, "obs": "pair %r calls %r" % (kinds, r.get("calls")), "nt": bool(r.get("pair")), "tr": r["runs"], "st": r["runs"], "ref": r["runs"], "calls": "%s:%s%s" % ("/".join(kinds), r.get("calls"), (" sites %s" % r.get("distinct_call_sites")) if r.get("distinct_call_sites") else "")}


# --------------------------------------------------------------------------------------------- R
def run_reuse(c):
    from mc import universe as U

    def run(objs, lazy, mb):
        b, pot, det, sc = objs
        kw = dict(lazy=lazy, **({"max_batch": mb} if lazy else {}))
        out = b.multislice(pot, scan=sc, detectors=det, **kw)
        outs = out if isinstance(out, list) else [out]
        return [o.compute() for o in outs] if lazy else outs

    def objects():
        return (U.builder(c["b"]), U.potential(c["p"], c["ep"]), U.detector(c["d"]), U.scan(c["s"]))

    viol, worst, tr = [], 0.0, 0
    try:
        ref = run(objects(), False, None)
    except Exception as e:  # noqa: BLE001  (outcome classes are space A's business)
        return {"viol": [], "obs": "raises:" + type(e).__name__, "nt": False, "tr": 1}
    for seq in ((("eager", None), ("lazy", 1), ("eager", None), ("lazy", 2)), (("lazy", 1), ("eager", None), ("lazy", 2), ("eager", None))):
        objs = objects()
        for k, (mode, mb) in enumerate(seq):
            try:
                got = run(objs, mode == "lazy", mb)
            except Exception as e:  # noqa: BLE001
                viol.append({"key": "reuse/raises/%s" % type(e).__name__, "msg": "run %d (%s) of the sequence %r on reused objects raised %s: %s (%s)" % (k, mode, seq, type(e).__name__, str(e)[:120], c)})
                break
            tr += 1
            why, e_ = U.compare_results(ref, got, RTOL, what=("fresh objects", "reused objects"))
            worst = max(worst, e_)
            if why:
                viol.append({"key": "reuse/%s-run-%d" % (mode, k), "msg": "run %d (%s, max_batch=%r) of %r on the SAME objects: %s (%s)" % (k, mode, mb, [m for m, _ in seq], why, c)})
                break
    return {"viol": _dedupe(viol), "obs": U.result_digest(ref), "nt": True, "tr": tr + 1, "ref": tr, "err": worst}


# --------------------------------------------------------------------------------------------- J
JOINT_SETS = [
    [["probe", "fp2", None, "waves", "custom", 1], ["probe", "fp2", None, "waves", "custom", 2], ["probe", "fp3", None, "waves", "custom", 1],
     ["probe", "atoms", None, "waves", "custom", 1], ["probe_ab", "fp2", None, "waves", "custom", 1], ["pw", "fp2", None, "waves", "none", 1]],
    [["probe", "fp2", 1, "annular", "grid", 2], ["probe", "fp2", None, "annular", "grid", 2], ["probe", "fp2mean", 1, "annular", "grid", 2],
     ["probe", "ae2", 1, "annular", "grid", 2], ["probe", "fp2", 1, "flex", "grid", 2]],
    [["probe", "crystal_fp", None, "pix", "custom", 1], ["probe", "crystal", None, "pix", "custom", 1], ["probe", "array", None, "pix", "custom", 1],
     ["probe", "finite", None, "pix", "custom", 1], ["probe", "fp2", None, "pix", "line", 1]],
]


def run_joint(c):
    import dask
    from mc import universe as U
    from mc.compare import err

    def lazy_outputs(m):
        b, p, ep, d, s, mb = m
        bld = U.builder(b)
        kw = dict(detectors=U.detector(d), lazy=True, max_batch=mb)
        out = bld.multislice(U.potential(p, ep), scan=U.scan(s), **kw) if b.startswith("probe") else bld.multislice(U.potential(p, ep), **kw)
        return out if isinstance(out, list) else [out]

    ms = c["members"]
    alone = []
    for m in ms:
        alone.append([np.asarray(o.compute().array) for o in lazy_outputs(m)])
    viol, tr = [], len(ms)
    subsets = [s_ for r in range(2, len(ms) + 1) for s_ in itertools.combinations(range(len(ms)), r)]
    for sub in subsets:
        lz = [lazy_outputs(ms[i]) for i in sub]  # fresh lazy objects for every joint evaluation
        flat = [o.array for outs in lz for o in outs]
        got = dask.compute(*flat)
        tr += 1
        k = 0
        for i, outs in zip(sub, lz):
            for j, _ in enumerate(outs):
                g = np.asarray(got[k])
                k += 1
                a = alone[i][j]
                if g.shape != a.shape:
                    viol.append({"key": "joint-graph/shape", "msg": "member %r computed together with %r has shape %r, on its own %r" % (ms[i], [ms[t] for t in sub if t != i], g.shape, a.shape)})
                elif err(g, a, RTOL_SAME, atol=1e-30) > 1.0:
                    viol.append({"key": "joint-graph/values", "msg": "member %r computed together with %r differs from its own result by %.3g on max %.3g" % (
                        ms[i], [ms[t] for t in sub if t != i], float(np.abs(g - a).max()), float(np.abs(a).max()))})
        if len(viol) >= 2:
            break
    return {"viol": _dedupe(viol)[:2], "obs": "%d members, %d subsets" % (len(ms), len(subsets)), "nt": True, "tr": tr, "st": len(subsets), "ref": tr}


# --------------------------------------------------------------------------------------------- D
def run_threads(c):
    from mc import universe as U

    case = {"b": "probe", "p": c["p"], "ep": c["ep"], "d": c["d"], "s": c["s"]}
    ref = _sim(case, True, c["mb"], scheduler="synchronous")
    viol = []
    for i in range(c["reps"]):
        import dask

        with dask.config.set(num_workers=8):
            got = _sim(case, True, c["mb"], scheduler="threads")
        if U.compare_results(ref, got, RTOL_SAME)[0]:
            viol.append({"key": "threads/differs-from-synchronous", "msg": "threaded run %d differs from synchronous (%s)" % (i, c)})
            break
    return {"viol": viol, "obs": U.result_digest(ref), "nt": True, "tr": c["reps"] + 1, "ref": c["reps"]}
