"""C07 — thickness series are consistent with truncated simulations.

Space: slice-thickness sequences {1.0 x4, (0.5, 1.5, 2.0), 0.8 x5} x exit_planes in {1, 2, 3, >= n, EVERY non-empty subset of
slice indices (n <= 4), subsets combined with the entrance plane -1} x potential kind {Potential, finite, PotentialArray,
FrozenPhonons(2), CrystalPotential} x builder {probe, plane wave} x detector {waves, annular, pixelated} x ensemble_mean.
Oracle: entry j == simulation through a FRESHLY constructed PotentialArray of the first k_j+1 built slices; the last
entry == the full simulation without exit planes; the entrance plane == the detector applied to the incident wave;
the ThicknessAxis values == the cumulative slice thicknesses (0 for the entrance plane).
"""
import itertools

import numpy as np

META = dict(
    engines=["product"],
    technique="exhaustive enumeration of all exit-plane subsets x slicings x potential kinds; differential oracle against truncated potentials",
    text="For every slicing (3), every integer exit_planes value and every non-empty subset of slice indices (with and without the entrance plane), "
         "every potential kind, builder, detector and ensemble_mean flag, each entry of the thickness series is compared with an independent "
         "simulation through a freshly constructed truncated PotentialArray, the last entry with the full simulation, the entrance entry with "
         "the detected incident wave and the thickness axis with the cumulative thicknesses.",
    note="Bound: <= 5 slices, 16x12 grid. Identical arithmetic on both sides: tolerance 5e-6. PotentialArray.__getitem__ is deliberately not used to "
         "truncate (it keeps the parent's exit planes, which no listed property claims).",
)
RTOL = 5e-6
SLICINGS = {"uniform4": 1.0, "nonuniform3": [0.5, 1.5, 2.0], "uniform5": 0.8}


def n_slices(name):
    return {"uniform4": 4, "nonuniform3": 3, "uniform5": 5}[name]


def check(ctx):
    q = ctx.quick
    cases = []
    for sl in SLICINGS:
        n = n_slices(sl)
        eps = [1, 2, 3, n, n + 2]
        if n <= 4:
            idx = list(range(n))
            for r in range(1, n + 1):
                for sub in itertools.combinations(idx, r):
                    eps.append(list(sub))
                    if r <= 2:
                        eps.append([-1] + list(sub))
        else:
            eps += [[0], [0, 2], [1, 3], [-1, 4], [0, 1, 2, 3, 4]]
        for ep in eps:
            for p in ("atoms", "array", "fp2", "fp1", "crystal", "finite"):
                if p == "crystal" and sl != "uniform4":
                    continue
                for b, d in itertools.product(("probe", "pw"), ("waves", "annular", "pix")):
                    if q and (p in ("finite", "array") and (b, d) != ("probe", "pix")):
                        continue
                    if q and isinstance(ep, list) and len(ep) > 2 and (b, d) not in (("probe", "pix"), ("pw", "waves")):
                        continue
                    if p == "fp1" and (b, d) not in (("probe", "pix"), ("pw", "waves"), ("probe", "annular")):
                        continue
                    for mean in ((False, True) if p == "fp2" else (False,)):
                        cases.append({"sl": sl, "ep": ep, "p": p, "b": b, "d": d, "mean": mean})
                        # the same series evaluated lazily (every dask block holds ONE configuration and, for a single exit plane, no thickness axis)
                        if p in ("atoms", "fp2", "fp1") and (b, d) in (("probe", "pix"), ("pw", "waves")) and not mean and (not q or not isinstance(ep, list) or len(ep) <= 2):
                            cases.append({"sl": sl, "ep": ep, "p": p, "b": b, "d": d, "mean": mean, "lazy": True})
    ctx.run(cases, "run_case", rule="(slicing, exit planes, potential, builder, detector, mean); non-trivial = more than one exit plane")


def make_potential(c, exit_planes):
    import abtem
    from mc import universe as U

    st = SLICINGS[c["sl"]]
    st = tuple(st) if isinstance(st, list) else st
    ep = tuple(exit_planes) if isinstance(exit_planes, list) else exit_planes
    a = U.atoms("A1")
    if c["p"] == "atoms":
        return abtem.Potential(a, gpts=U.GPTS, slice_thickness=st, exit_planes=ep)
    if c["p"] == "finite":
        return abtem.Potential(a, gpts=U.GPTS, slice_thickness=st, exit_planes=ep, projection="finite")
    if c["p"] == "fp1":
        return abtem.Potential(U.frozen_phonons("A1", 1, False), gpts=U.GPTS, slice_thickness=st, exit_planes=ep)
    if c["p"] == "fp2":
        return abtem.Potential(U.frozen_phonons("A1", 2, c["mean"]), gpts=U.GPTS, slice_thickness=st, exit_planes=ep)
    if c["p"] == "array":
        b = abtem.Potential(a, gpts=U.GPTS, slice_thickness=st).build(lazy=False)
        return abtem.PotentialArray(np.array(b.array), slice_thickness=b.slice_thickness, extent=b.extent, exit_planes=ep)
    if c["p"] == "crystal":
        unit = abtem.Potential(U.atoms("A0"), gpts=U.GPTS, slice_thickness=1.0)  # 2 A cell -> 2 slices, repeated twice -> 4
        return abtem.CrystalPotential(unit, (1, 1, 2), exit_planes=ep)
    raise KeyError(c["p"])


def run_case(c):
    import abtem
    from abtem.core.axes import ThicknessAxis
    from mc import universe as U
    from mc.compare import err

    viol, worst, tr = [], 0.0, 0

    def bad(key, msg):
        if sum(1 for v in viol if v["key"] == key) < 2:
            viol.append({"key": key, "msg": "%s (%s)" % (msg, c)})

    try:
        pot = make_potential(c, c["ep"])
    except Exception as e:  # noqa: BLE001
        return {"viol": [], "obs": "ctor-raises:" + type(e).__name__, "nt": False, "notes": ["exit_planes %r rejected by the constructor" % (c["ep"],)]}
    planes = tuple(pot.exit_planes)
    thick = tuple(pot.slice_thickness)
    n = len(thick)
    sc = "custom" if c["b"] == "probe" else "none"
    series = U.simulate(c["b"], pot, U.detector(c["d"]), U.scan(sc), bool(c.get("lazy", False)))[0]
    tr += 1
    full = U.simulate(c["b"], make_potential(c, None), U.detector(c["d"]), U.scan(sc), False)[0]
    tr += 1
    arr = np.asarray(series.array)
    if len(planes) == 1:
        # a single exit plane: no thickness axis; result is the simulation up to that plane
        ax = None
    else:
        axes = [i for i, a in enumerate(series.ensemble_axes_metadata) if isinstance(a, ThicknessAxis)]
        if len(axes) != 1:
            bad("axis/missing", "expected exactly one ThicknessAxis, found %d" % len(axes))
            return {"viol": viol}
        ax = axes[0]
        vals = tuple(series.ensemble_axes_metadata[ax].values)
        want = tuple(0.0 if p == -1 else float(np.sum(thick[: p + 1])) for p in planes)
        if len(vals) != len(want) or any(abs(v - w) > 1e-6 for v, w in zip(vals, want)):
            bad("axis/thickness-values", "ThicknessAxis values %r, cumulative thicknesses %r for planes %r" % (vals, want, planes))
        if arr.shape[ax] != len(planes):
            bad("axis/length", "%d entries for %d exit planes" % (arr.shape[ax], len(planes)))
            return {"viol": viol}
    # reference potential slices (per configuration for the ensemble)
    ens = c["p"] in ("fp2", "fp1")
    if ens:  # one reference potential per displaced configuration, built independently of the ensemble machinery
        st = SLICINGS[c["sl"]]
        cfg_arrays = []
        for a in U.frozen_phonons("A1", 2 if c["p"] == "fp2" else 1, False):
            built = abtem.Potential(a, gpts=U.GPTS, slice_thickness=tuple(st) if isinstance(st, list) else st).build(lazy=False)
            cfg_arrays.append(np.asarray(built.array))
    else:
        built = make_potential(c, None)
        if not isinstance(built, abtem.PotentialArray):
            built = built.build(lazy=False)
        cfg_arrays = [np.asarray(built.array)]
    sampling = built.sampling

    def reference(k):
        """simulate through the first k+1 slices (k = -1: incident wave)"""
        nonlocal tr
        outs = []
        for cfg in cfg_arrays:
            tr += 1
            if k == -1:
                b = U.builder(c["b"])
                b.grid.match(built)
                w = b.build(U.scan(sc), lazy=False) if c["b"] == "probe" else b.build(lazy=False)
                det = U.detector(c["d"])
                outs.append(np.asarray(w.array if det is None else det.detect(w).array))
            else:
                tp = abtem.PotentialArray(np.array(cfg[: k + 1]), slice_thickness=thick[: k + 1], sampling=sampling)
                outs.append(np.asarray(U.simulate(c["b"], tp, U.detector(c["d"]), U.scan(sc), False)[0].array))
        if not ens:
            return outs[0]
        stacked = np.stack(outs)
        if c["mean"] and not np.iscomplexobj(stacked):
            return stacked.mean(axis=0)
        return stacked

    for j, p in enumerate(planes):
        got = arr if ax is None else np.take(arr, j, axis=ax)
        ref = reference(p)
        e = err(got, ref, RTOL, atol=1e-30)
        worst = max(worst, e)
        if not e <= 1.0:
            kind = "entrance" if p == -1 else ("last" if p == n - 1 else "intermediate")
            bad("entry/%s/%s%s" % (kind, "ensemble" if ens else "single", "/lazy" if c.get("lazy") else ""), "exit plane %d (entry %d of %r): max|d| = %s on %.3g, shapes %r vs %r" % (
                p, j, planes, float(np.abs(got - ref).max()) if got.shape == ref.shape else "shape", float(np.abs(ref).max()), got.shape, ref.shape))
    if planes[-1] == n - 1:
        last = arr if ax is None else np.take(arr, len(planes) - 1, axis=ax)
        e = err(last, np.asarray(full.array), RTOL, atol=1e-30)
        worst = max(worst, e)
        if not e <= 1.0:
            bad("last-vs-full", "the last exit plane differs from the simulation without exit planes")
    return {"viol": viol, "obs": "%r" % (planes,), "nt": len(planes) > 1, "tr": tr, "ref": len(planes) + 1, "err": worst}
