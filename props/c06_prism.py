"""C06 — PRISM reduction reproduces conventional multislice probes.

Space: SMatrix(cutoff in {15, 25 mrad}, potential in {none, atoms, FrozenPhonons(2, mean False)}, interpolation in
{1, (2,1), 2}, downsample in {False, 'cutoff'}) x CTF in {aperture only, C10, C30+C12+phi12, C21+phi21, defocus distribution}
x scan in {point, Custom(3), Grid(2,3)} x detector in {Waves, Annular, Pixelated, Segmented} x lazy/eager.
Oracle: interpolation 1 -> equals Probe(ctf).multislice(potential, scan, detectors) (complex exit waves compared including
the global phase); interpolation > 1 -> the reduced window probe equals the probe periodised on the window
(dummy_probes(ctf).build(position)) up to the periodic roll given by the crop corner, found by exhaustive search over all
rolls, and its |FFT|^2 (roll invariant) agrees; the reciprocal-space intensity of every reduced probe is 1; lazy == eager.
"""
import itertools

import numpy as np

META = dict(
    engines=["product"],
    technique="exhaustive enumeration of S-matrix settings x CTFs x scans x detectors x lazy/eager; differential oracle against conventional multislice",
    text="All combinations of cutoff, potential kind, interpolation, downsampling, 5 CTFs (incl. aberrations and a defocus distribution), 3 scans, "
         "4 detectors and both evaluation modes are reduced with the real SMatrix and compared with Probe.multislice through the same potential "
         "(interpolation 1) or with the window-periodised probe up to an exhaustively searched roll (interpolation > 1). Five build / compute / reduce orders of the same reduction (interpolation 1, (2,1), 2 x one / two configurations) must agree.",
    note="Bound: 24x24 grid over 6x6 A, 2 slices, <= 6 positions. Tolerance 1e-4 of max (different algorithm, same mathematics). With a potential and "
         "interpolation > 1 PRISM is an approximation by design, so only the vacuum window probes are judged there.",
)
RTOL = 1e-4
GP = (24, 24)
EXT = (6.0, 6.0)
CTFS = [{}, {"C10": 50.0}, {"C30": 2e4, "C12": 25.0, "phi12": 0.4}, {"C21": 300.0, "phi21": -0.8}, {"defocus": "dist"}]


def atoms():
    import ase

    return ase.Atoms("SiC", positions=[(1.1, 1.7, 1.0), (3.6, 4.2, 2.5)], cell=(6, 6, 4))


def potential(kind):
    import abtem

    if kind == "none":
        return None
    if kind == "atoms":
        return abtem.Potential(atoms(), gpts=GP, slice_thickness=2.0)
    fp = abtem.FrozenPhonons(atoms(), 2, 0.1, seed=(3, 4), ensemble_mean=False)
    return abtem.Potential(fp, gpts=GP, slice_thickness=2.0)


def make_ctf(i, cutoff):
    import abtem

    kw = dict(CTFS[i])
    if kw.get("defocus") == "dist":
        kw["defocus"] = abtem.distributions.from_values([20.0, 60.0])
    return abtem.CTF(semiangle_cutoff=cutoff, energy=100e3, **kw)


def make_scan(name):
    import abtem

    return {"point": lambda: abtem.CustomScan([[2.5, 3.25]]), "custom": lambda: abtem.CustomScan([[0.0, 0.0], [2.0, 3.1], [5.9, 0.4]]),
            "grid": lambda: abtem.GridScan(start=(0, 0), end=(3, 4.5), gpts=(2, 3))}[name]()


def make_det(name):
    import abtem

    return {"waves": lambda: None, "annular": lambda: abtem.AnnularDetector(4, 20), "pix": lambda: abtem.PixelatedDetector(max_angle="valid"),
            "seg": lambda: abtem.SegmentedDetector(2, 4, 4, 20)}[name]()


def check(ctx):
    q = ctx.quick
    cases = []
    for cut, pot, ctf, sc, det, lazy in itertools.product((15.0, 25.0), ("none", "atoms", "fp2"), range(len(CTFS)), ("point", "custom", "grid"),
                                                          ("waves", "annular", "pix", "seg"), (False, True)):
        if q and (cut == 15.0 and (pot != "atoms" or det not in ("waves", "pix"))):
            continue
        if q and lazy and (sc != "custom" or det == "seg"):
            continue
        cases.append({"kind": "full", "cut": cut, "pot": pot, "ctf": ctf, "scan": sc, "det": det, "lazy": lazy, "down": False})
    for down in ("cutoff",):
        for pot, ctf, det in itertools.product(("none", "atoms"), (0, 2), ("waves", "annular")):
            cases.append({"kind": "full", "cut": 25.0, "pot": pot, "ctf": ctf, "scan": "custom", "det": det, "lazy": False, "down": down})
    for interp, down, ctf, lazy in itertools.product(([2, 1], [1, 2], [2, 2], [3, 2]), (False, "cutoff"), range(len(CTFS)), (False, True)):
        if q and lazy and ctf not in (0, 2):
            continue
        for mbr in ("auto", 1):
            cases.append({"kind": "window", "cut": 25.0, "interp": interp, "down": down, "ctf": ctf, "lazy": lazy, "mbr": mbr})
    # routes: the same reduction reached through every build / reduce / compute order must be one result (with interpolation > 1 and a
    # potential there is no conventional reference, but there is still only one right answer)
    for interp, pot, ctf, sc in itertools.product(([1, 1], [2, 1], [2, 2]), ("atoms", "fp2"), (0, 2, 4), ("custom", "grid")):
        if q and (ctf == 4 and sc == "grid"):
            continue
        cases.append({"kind": "routes", "cut": 25.0, "interp": interp, "pot": pot, "ctf": ctf, "scan": sc})
    ctx.run(cases, "run_case", rule="routes: 5 build/reduce/compute orders of the same reduction agree | full: interpolation 1 vs Probe.multislice; window: interpolation > 1 vs periodised probe (all rolls searched); "
            "non-trivial = CTF with aberrations or a potential")


def run_case(c):
    import abtem
    from mc.compare import err

    viol, worst = [], 0.0

    def bad(key, msg):
        viol.append({"key": key, "msg": "%s (%s)" % (msg, c)})

    ctf = make_ctf(c["ctf"], c["cut"])
    ab = "aberrated" if CTFS[c["ctf"]] else "plain"
    if c["kind"] == "full":
        pot = potential(c["pot"])
        kw = dict(potential=pot) if pot is not None else dict(gpts=GP, extent=EXT)
        S = abtem.SMatrix(semiangle_cutoff=c["cut"], energy=100e3, interpolation=1, downsample=c["down"], **kw)
        got = S.reduce(scan=make_scan(c["scan"]), detectors=make_det(c["det"]), ctf=ctf, lazy=c["lazy"])
        got = got.compute() if c["lazy"] else got
        probe = abtem.Probe(aperture=None, semiangle_cutoff=c["cut"], energy=100e3, aberrations=dict((k, v) for k, v in ctf.aberration_coefficients.items()), gpts=GP, extent=EXT)
        refpot = potential(c["pot"])
        if refpot is None:  # no potential: the S-matrix is not propagated at all, so the reference is the built probe itself
            w = probe.build(make_scan(c["scan"]), lazy=False)
            det = make_det(c["det"])
            ref = w if det is None else det.detect(w)
        else:
            ref = probe.multislice(refpot, scan=make_scan(c["scan"]), detectors=make_det(c["det"]), lazy=False)
        g, r = np.asarray(got.array), np.asarray(ref.array)
        if c["down"] and c["det"] == "waves":
            # downsampled exit waves live on a coarser grid: compare the retained Fourier coefficients
            G = np.fft.fft2(g)  # SMatrix downsamples with 'intensity' normalisation: the retained coefficients are unchanged
            R = np.fft.fft2(r)
            from abtem.core.fft import fft_crop

            R = fft_crop(R, g.shape[-2:]) if R.shape[-2:] != g.shape[-2:] else R
            g, r = G, R
        if g.shape != r.shape:
            bad("full/shape/%s" % c["det"], "reduced shape %r, multislice shape %r" % (g.shape, r.shape))
            return {"viol": viol}
        e = err(g, r, RTOL, atol=1e-12)
        worst = max(worst, e)
        if not e <= 1.0:
            bad("full/values/%s/%s" % (ab, "lazy" if c["lazy"] else "eager"), "PRISM reduction vs Probe.multislice: max|d| = %.3g on max %.3g" % (
                float(np.abs(g - r).max()), float(np.abs(r).max())))
        # axes metadata must describe the same ensemble
        la, lb = [type(a).__name__ for a in got.ensemble_axes_metadata], [type(a).__name__ for a in ref.ensemble_axes_metadata]
        if la != lb:
            bad("full/axes", "ensemble axes %r vs %r" % (la, lb))
        return {"viol": viol, "obs": "ok" if not viol else viol[0]["key"], "nt": bool(CTFS[c["ctf"]]) or c["pot"] != "none", "tr": 2, "err": worst}
    if c["kind"] == "routes":
        def smatrix():
            return abtem.SMatrix(potential=potential(c["pot"]), semiangle_cutoff=c["cut"], energy=100e3, interpolation=tuple(c["interp"]), downsample=False)

        def arr(x):
            x = x.compute() if getattr(x, "is_lazy", False) else x
            return np.asarray(x.array)

        kw = lambda: dict(scan=make_scan(c["scan"]), ctf=make_ctf(c["ctf"], c["cut"]))  # noqa: E731
        routes = {
            "reduce(lazy=False)": lambda: arr(smatrix().reduce(lazy=False, **kw())),
            "reduce(lazy=True).compute()": lambda: arr(smatrix().reduce(lazy=True, **kw())),
            "build(lazy=False).reduce()": lambda: arr(smatrix().build(lazy=False).reduce(**kw())),
            "build(lazy=True).compute().reduce()": lambda: arr(smatrix().build(lazy=True).compute().reduce(**kw())),
            "build(lazy=True).reduce().compute()": lambda: arr(smatrix().build(lazy=True).reduce(**kw())),
        }
        res = {}
        for name, f in routes.items():
            try:
                res[name] = f()
            except Exception as e:  # noqa: BLE001
                res[name] = "raises:%s: %s" % (type(e).__name__, str(e)[:100])
        first_name = "reduce(lazy=False)"
        first = res[first_name]
        for name, r in res.items():
            if isinstance(first, str) or isinstance(r, str):
                if isinstance(first, str) != isinstance(r, str):
                    bad("routes/outcome/" + name, "%s: %s, %s: %s" % (first_name, first if isinstance(first, str) else "ok", name, r if isinstance(r, str) else "ok"))
                continue
            if r.shape != first.shape:
                bad("routes/shape/" + name, "%s gives shape %r, %s gives %r" % (name, r.shape, first_name, first.shape))
                continue
            e = err(r, first, RTOL, atol=1e-12)
            worst = max(worst, e)
            if not e <= 1.0:
                bad("routes/values/" + name, "%s differs from %s by %.3g on max %.3g" % (name, first_name, float(np.abs(r - first).max()), float(np.abs(first).max())))
        return {"viol": viol, "obs": "ok" if not viol else viol[0]["key"], "nt": True, "tr": len(routes), "ref": len(routes) - 1, "err": worst}
    # ---- window probes (vacuum)
    S = abtem.SMatrix(semiangle_cutoff=c["cut"], energy=100e3, gpts=GP, extent=EXT, interpolation=tuple(c["interp"]), downsample=c["down"])
    # centre, one-edge, and all four cell corners (the crop window wraps around in both directions there)
    pos = [[3.0, 3.0], [0.5, 1.25], [5.9, 2.0], [2.1, 5.3], [0.3, 0.4], [5.8, 5.7], [0.2, 5.9], [5.6, 0.1]]
    got = S.reduce(scan=abtem.CustomScan(pos), ctf=ctf, lazy=c["lazy"], max_batch_reduction=c.get("mbr", "auto"))
    got = got.compute() if c["lazy"] else got
    g = np.asarray(got.array)
    Sa = S.build(lazy=False)
    dp = Sa.dummy_probes(ctf=make_ctf(c["ctf"], c["cut"]))
    ref = np.asarray(dp.build(scan=abtem.CustomScan(pos), lazy=False).array)
    if g.shape != ref.shape:
        bad("window/shape", "reduced window probes %r, periodised probes %r" % (g.shape, ref.shape))
        return {"viol": viol}
    inten = (np.abs(np.fft.fft2(g.astype(np.complex128))) ** 2).sum(axis=(-2, -1))
    if np.abs(inten - 1).max() > 1e-4:
        bad("window/intensity/" + ab, "reciprocal-space intensity of reduced probes %r" % np.round(np.ravel(inten), 5).tolist())
    # |FFT|^2 is roll invariant
    Fg, Fr = np.abs(np.fft.fft2(g)) ** 2, np.abs(np.fft.fft2(ref)) ** 2
    e = err(Fg, Fr, RTOL, atol=1e-12)
    worst = max(worst, e)
    if not e <= 1.0:
        bad("window/spectrum/" + ab, "|FFT|^2 of reduced window probes differs from the periodised probe: %.3g on %.3g" % (float(np.abs(Fg - Fr).max()), float(Fr.max())))
    # exhaustive roll search per position
    flat_g = g.reshape((-1,) + g.shape[-2:])
    flat_r = ref.reshape((-1,) + ref.shape[-2:])
    n, m = g.shape[-2:]
    for k in range(flat_g.shape[0]):
        best = min(float(np.abs(np.roll(flat_g[k], (i, j), axis=(0, 1)) - flat_r[k]).max()) for i in range(n) for j in range(m))
        rel = best / float(np.abs(flat_r[k]).max())
        worst = max(worst, rel / RTOL)
        if not rel <= RTOL:
            bad("window/values/" + ab, "no periodic roll maps reduced window probe %d onto the periodised probe (best %.3g relative)" % (k, rel))
            break
    # translation covariance of the window: probe positions that differ by WHOLE pixels (incl. positions next to the x = 0 / y = 0 cell
    # edges, where the crop corner is negative, and next to the upper edges) must give the identical window array - the window follows the probe
    px = (EXT[0] / GP[0], EXT[1] / GP[1])
    for base in (((0.0, 0.0), (0.1, 0.07)) if not c["down"] else ()):  # with downsampling the S-matrix lives on a coarser grid: these are not whole pixels there
        shifts = [(12, 12), (1, 1), (0, 12), (12, 0), (2, 23), (23, 3), (0, 0), (23, 23), (5, 1)]
        pos2 = [[base[0] + i * px[0], base[1] + j * px[1]] for i, j in shifts]
        gw = S.reduce(scan=abtem.CustomScan(pos2), ctf=ctf, lazy=c["lazy"], max_batch_reduction=c.get("mbr", "auto"))
        gw = np.asarray((gw.compute() if c["lazy"] else gw).array)
        gw = gw.reshape((-1, len(pos2)) + gw.shape[-2:]) if gw.ndim > 3 else gw[None]
        for e_ in range(gw.shape[0]):
            ref0 = gw[e_, 0]
            for k in range(1, len(pos2)):
                d = float(np.abs(gw[e_, k] - ref0).max()) / float(np.abs(ref0).max())
                worst = max(worst, d / RTOL)
                if not d <= RTOL:
                    bad("window/whole-pixel-shift-changes-window/" + ab, "window probe at pixel position %r differs from the one at pixel position %r by %.3g (relative): the crop window does not follow the probe" % (
                        shifts[k], shifts[0], d))
                    break
    return {"viol": viol, "obs": "ok" if not viol else viol[0]["key"], "nt": True, "tr": 4, "ref": flat_g.shape[0] * n * m, "err": worst}
