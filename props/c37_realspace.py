"""C37 — real-space multislice is a faithful discretisation.

Space: accuracy in {2, 4, ..., 12} (thorough ... 18) x grids {(8,8), (9,7), (12,10)} x sampling in {(0.2,0.2), (0.2,0.3)} x EVERY
plane-wave frequency (p, q) of the grid (the complete Fourier basis); vacuum propagation of band-limited waves for order in
{1, 2}, expansion scope in {propagator, full}; lazy vs eager for RealSpaceMultislice on 2 potentials x 2 builders x 2 detectors.
Oracle: laplace(e_pq) = lambda_pq e_pq with the stencil's analytic eigenvalue
lambda_pq = sum_k c_k (e^{2 pi i k p / N} / dx^2 + e^{2 pi i k q / M} / dy^2) (1e-4 relative, complex64 stencil);
sum |psi|^2 preserved through vacuum (1e-5); lazy == eager.
"""
import itertools

import numpy as np

META = dict(
    engines=["product"],
    technique="exhaustive enumeration of stencil accuracies x grids x samplings over the complete Fourier basis of each grid; analytic eigenvalue as reference",
    text="For 6-9 stencil accuracies, 3 grids and 2 samplings (one anisotropic) the real LaplaceOperator is applied to every plane wave of the grid and "
         "compared with the analytic eigenvalue of the stencil (coefficients typed in independently); vacuum propagation of band-limited waves "
         "through RealSpaceMultislice preserves intensity for both orders and expansion scopes, also for every low-band plane wave (k = 0 included) propagated together as one ensemble, each member compared with the same wave propagated alone; lazy and eager real-space runs are compared. All ordered pairs (thorough: triples) of stencil accuracies are used one after another on one grid in one process.",
    note="Bound: grids <= 12x10, accuracies <= 12 (18 thorough). The eigenvalue check is exhaustive for the operator on each enumerated grid because the "
         "operator is diagonal in the Fourier basis. Tolerance 1e-4 relative to max |lambda| (complex64 stencil).",
)
GRIDS = [(8, 8), (9, 7), (12, 10)]
SAMP = [(0.2, 0.2), (0.2, 0.3)]


def ref_coefficients(accuracy):
    """central finite-difference coefficients of the second derivative, computed here by solving the Vandermonde system exactly"""
    from fractions import Fraction

    n = accuracy // 2
    offs = list(range(-n, n + 1))
    m = len(offs)
    # sum_k c_k k^j = 2 if j == 2 else 0  (j = 0..m-1), with factorials: sum c_k k^j / j! = delta_{j2}
    A = [[Fraction(k) ** j for k in offs] for j in range(m)]
    b = [Fraction(2) if j == 2 else Fraction(0) for j in range(m)]
    # Gaussian elimination in exact arithmetic
    for i in range(m):
        piv = next(r for r in range(i, m) if A[r][i] != 0)
        A[i], A[piv] = A[piv], A[i]
        b[i], b[piv] = b[piv], b[i]
        for r in range(m):
            if r != i and A[r][i] != 0:
                f = A[r][i] / A[i][i]
                A[r] = [x - f * y for x, y in zip(A[r], A[i])]
                b[r] = b[r] - f * b[i]
    return [float(b[i] / A[i][i]) for i in range(m)], offs


def check(ctx):
    accs = [2, 4, 6, 8, 10, 12] if ctx.quick else [2, 4, 6, 8, 10, 12, 14, 16, 18]
    cases = [{"kind": "eig", "acc": a, "g": g, "s": s} for a, g, s in itertools.product(accs, range(len(GRIDS)), range(len(SAMP)))]
    hacc = [2, 4, 6, 8]
    for s in range(len(SAMP)):
        for seq in list(itertools.permutations(hacc, 2)) + ([] if ctx.quick else list(itertools.permutations(hacc, 3))):
            cases.append({"kind": "eig-history", "seq": list(seq), "s": s})
    for order, scope, s in itertools.product((1, 2), ("propagator", "full"), range(len(SAMP))):
        cases.append({"kind": "vacuum", "order": order, "scope": scope, "s": s})
    for order, scope, s in itertools.product((1, 2), ("propagator", "full"), range(len(SAMP))):
        cases.append({"kind": "vacuum-batch", "order": order, "scope": scope, "s": s})
    for p, b, d in itertools.product(("atoms", "fp2"), ("probe", "pw"), ("waves", "pix")):
        cases.append({"kind": "lazy", "p": p, "b": b, "d": d})
    ctx.run(cases, "run_case", batch=1, rule="eig: (accuracy, grid, sampling) with every plane wave of the grid inside; vacuum: (order, scope, sampling); "
            "lazy: (potential, builder, detector); non-trivial = all")


def run_case(c):
    import abtem
    from abtem.finite_difference import LaplaceOperator

    viol, worst = [], 0.0

    def bad(key, msg):
        if sum(1 for v in viol if v["key"] == key) < 2:
            viol.append({"key": key, "msg": "%s (%s)" % (msg, c)})

    if c["kind"] == "eig-history":
        # several operators of DIFFERENT accuracy are used one after another on the same grid in one process (all ordered pairs / triples):
        # each must give its own stencil's eigenvalues whatever was used before
        gpts, samp = GRIDS[0], SAMP[c["s"]]
        N, M = gpts
        x = np.arange(N)[:, None]
        y = np.arange(M)[None]
        modes = [(1, 0), (0, 1), (2, 3), (N // 2, M // 2 - 1)]
        basis = np.stack([np.exp(2j * np.pi * (p * x / N + q * y / M)) for p, q in modes]).astype(np.complex64)
        from abtem.core.axes import OrdinalAxis

        worst = 0.0
        for k, acc in enumerate(c["seq"]):
            coef, offs = ref_coefficients(acc)
            lam = np.array([sum(ck * (np.exp(2j * np.pi * j * p / N) / samp[0] ** 2 + np.exp(2j * np.pi * j * q / M) / samp[1] ** 2) for ck, j in zip(coef, offs)) for p, q in modes])
            w = abtem.Waves(basis.copy(), energy=100e3, sampling=samp, ensemble_axes_metadata=[OrdinalAxis(values=tuple(range(len(modes))))])
            out = np.asarray(LaplaceOperator(acc).apply(w).array)
            got = (out * np.conj(basis)).mean(axis=(-2, -1))
            e = float(np.abs(got - lam).max()) / float(np.abs(lam).max())
            worst = max(worst, e / 1e-4)
            if not e <= 1e-4:
                bad("eigenvalue/after-other-accuracy", "accuracy %d used after accuracies %r on the same grid: eigenvalues %r, its own stencil gives %r" % (
                    acc, list(c["seq"][:k]), np.round(got.real, 4).tolist(), np.round(lam.real, 4).tolist()))
                break
        return {"viol": viol, "obs": "seq", "tr": len(c["seq"]), "ref": len(c["seq"]), "err": worst}
    if c["kind"] == "eig":
        gpts, samp = GRIDS[c["g"]], SAMP[c["s"]]
        N, M = gpts
        coef, offs = ref_coefficients(c["acc"])
        x = np.arange(N)[:, None]
        y = np.arange(M)[None]
        basis = np.zeros((N * M, N, M), np.complex64)
        lam = np.zeros(N * M, complex)
        for idx, (p, q) in enumerate(itertools.product(range(N), range(M))):
            basis[idx] = np.exp(2j * np.pi * (p * x / N + q * y / M))
            lam[idx] = sum(ck * (np.exp(2j * np.pi * k * p / N) / samp[0] ** 2 + np.exp(2j * np.pi * k * q / M) / samp[1] ** 2) for ck, k in zip(coef, offs))
        from abtem.core.axes import OrdinalAxis

        w = abtem.Waves(basis.copy(), energy=100e3, sampling=samp, ensemble_axes_metadata=[OrdinalAxis(values=tuple(range(N * M)))])
        out = np.asarray(LaplaceOperator(c["acc"]).apply(w).array)
        got = (out * np.conj(basis)).mean(axis=(-2, -1))  # projection on the input wave
        resid = np.abs(out - got[:, None, None] * basis).max()  # must stay a multiple of the input wave
        scale = float(np.abs(lam).max())
        e = float(np.abs(got - lam).max()) / scale
        worst = e / 1e-4
        if not e <= 1e-4:
            k = int(np.argmax(np.abs(got - lam)))
            iso = "isotropic" if samp[0] == samp[1] else "anisotropic"
            bad("eigenvalue/" + iso, "accuracy %d, plane wave (%d, %d): laplace gives eigenvalue %r, stencil eigenvalue %r" % (c["acc"], k // M, k % M, complex(got[k]), complex(lam[k])))
        if resid / scale > 1e-4:
            bad("eigenfunction", "laplace of a plane wave is not a multiple of the plane wave (residual %.3g)" % (resid / scale))
        return {"viol": viol, "obs": "%.5g" % lam.real.min(), "tr": 1, "ref": N * M, "err": worst}
    if c["kind"] == "vacuum":
        from abtem.antialias import antialias_aperture
        from abtem.multislice import RealSpaceMultislice
        from mc.compare import rng

        gpts, samp = (16, 12), SAMP[c["s"]]
        r = rng("c37v", c["s"])
        kx = np.fft.fftfreq(gpts[0], samp[0])[:, None]
        ky = np.fft.fftfreq(gpts[1], samp[1])[None]
        low = (np.sqrt(kx ** 2 + ky ** 2) < 0.6)  # well inside the band: the finite-difference propagator is accurate there
        F = (r.normal(size=gpts) + 1j * r.normal(size=gpts)) * low
        x = np.fft.ifft2(F).astype(np.complex64)
        w = abtem.Waves(x.copy(), energy=100e3, sampling=samp)
        pot = abtem.PotentialArray(np.zeros((4,) + gpts, np.float32), slice_thickness=0.5, sampling=samp)
        alg = RealSpaceMultislice(order=c["order"], expansion_scope=c["scope"], derivative_accuracy=8)
        out = np.asarray(w.multislice(pot, algorithm=alg).array)
        i0, i1 = float((np.abs(x) ** 2).sum()), float((np.abs(out) ** 2).sum())
        e = abs(i1 / i0 - 1)
        worst = e / 1e-4
        if not e <= 1e-4:
            bad("vacuum/intensity/%s" % ("isotropic" if samp[0] == samp[1] else "anisotropic"), "real-space propagation through 2 A of vacuum changes the intensity by %.3g (order %d, %s)" % (e, c["order"], c["scope"]))
        return {"viol": viol, "obs": "%.2e" % e, "tr": 1, "err": worst}
    if c["kind"] == "vacuum-batch":
        # EVERY plane wave inside the band (|k| < 0.85 of the antialiasing cutoff, the uniform wave k = 0 included) propagated together as ONE ensemble:
        # every member keeps its intensity, and equals the same wave propagated on its own (members converge at different speeds)
        from abtem.core.axes import OrdinalAxis
        from abtem.multislice import RealSpaceMultislice

        gpts, samp = (16, 12), SAMP[c["s"]]
        N, M = gpts
        x = np.arange(N)[:, None]
        y = np.arange(M)[None]
        kx = np.fft.fftfreq(N, samp[0])
        ky = np.fft.fftfreq(M, samp[1])
        kcut = 0.85 * (2 / 3) * min(0.5 / samp[0], 0.5 / samp[1])  # well inside the antialiasing aperture that every real-space step applies
        modes = [(p, q) for p in range(N) for q in range(M) if np.hypot(kx[p], ky[q]) < kcut]
        basis = np.stack([np.exp(2j * np.pi * (p * x / N + q * y / M)) for p, q in modes]).astype(np.complex64)
        pot = abtem.PotentialArray(np.zeros((4,) + gpts, np.float32), slice_thickness=2.0, sampling=samp)
        alg = RealSpaceMultislice(order=c["order"], expansion_scope=c["scope"], derivative_accuracy=8)
        w = abtem.Waves(basis.copy(), energy=100e3, sampling=samp, ensemble_axes_metadata=[OrdinalAxis(values=tuple(range(len(modes))))])
        out = np.asarray(w.multislice(pot, algorithm=alg).array)
        inten = (np.abs(out) ** 2).sum(axis=(-2, -1)) / (N * M)
        e = float(np.abs(inten - 1).max())
        worst = e / 1e-4
        if not e <= 1e-4:
            k = int(np.argmax(np.abs(inten - 1)))
            bad("vacuum/intensity/batch-member", "plane wave %r propagated through 8 A of vacuum inside an ensemble of %d plane waves changes its intensity by %.3g (order %d, %s)" % (
                modes[k], len(modes), inten[k] - 1, c["order"], c["scope"]))
        tr = 1
        for k in range(0, len(modes), 7):
            alone = np.asarray(abtem.Waves(basis[k].copy(), energy=100e3, sampling=samp).multislice(pot, algorithm=alg).array)
            tr += 1
            d = float(np.abs(alone - out[k]).max())
            worst = max(worst, d / 1e-4)
            if not d <= 1e-4:
                bad("vacuum/batch-dependence", "plane wave %r: propagated inside the ensemble and on its own differ by %.3g" % (modes[k], d))
                break
        return {"viol": viol, "obs": "%d modes %.1e" % (len(modes), e), "tr": tr, "ref": len(modes), "err": worst}
    from abtem.multislice import RealSpaceMultislice
    from mc import universe as U

    alg = RealSpaceMultislice(order=1, derivative_accuracy=6)

    def run(lazy):
        b = U.builder(c["b"])
        pot = U.potential(c["p"], gpts=(24, 18), slice_thickness=1.0)
        kw = dict(detectors=U.detector(c["d"]), lazy=lazy, algorithm=alg)
        out = b.multislice(pot, scan=U.scan("custom"), **kw) if c["b"] == "probe" else b.multislice(pot, **kw)
        out = out.compute() if lazy else out
        return [out]

    why, e = U.compare_results(run(False), run(True), 2e-5)
    if why:
        bad("lazy-vs-eager", why)
    return {"viol": viol, "obs": "ok", "tr": 2, "err": e}
