"""C20 — scan positions have the geometry their parameters describe.

Space: LineScan / GridScan with start in {(0,0), (1.5,-2)}, 3 end points, gpts in 1..5 or sampling in {0.5, 0.7, 3}, endpoint in
{F, T, (T,F)}, fractional coordinates with a potential, at_position (4 angles), add_margin, match_probe; probes at positions
{whole pixels, half pixel, generic, outside the cell} on 4 grids with aberrations.
Oracle: number of positions = gpts; positions[i] = start + i * sampling * direction; the last position is the end point with
endpoint and one step short of it otherwise; the axis metadata coordinates are the same numbers; probe(r) = np.roll(probe(0))
for whole pixels and = fft_shift(probe(0), r / sampling) otherwise; the same for every position of 3 GridScans and 3 LineScans built eagerly
and lazily with max_batch in {1, 2, 3, 7, 10, auto} (equal, unequal and single-position blocks).
"""
import itertools

import numpy as np

META = dict(
    engines=["product", "bfs"],
    technique="exhaustive enumeration of scan parameters (start/end/gpts/sampling/endpoint/constructors/mutators) and probe positions; closed-form reference",
    text="Every combination of start, end, gpts 1-5 or three samplings, and all endpoint settings for LineScan and GridScan, plus fractional, "
         "at_position, add_margin and match_probe variants, is checked position by position against start + i*sampling*direction, the end-point "
         "rule and the axis metadata; probes on 4 grids are built at 9 positions (whole pixels, half pixels, generic, outside the cell) and "
         "compared with the rolled / Fourier-shifted origin probe. A breadth-first search over edit / request histories (12 events, length 3 quick / 4 thorough) on one live GridScan or LineScan requires the same geometry from the parameters read back after every event, the last assigned values to read back, and the positions to equal those of a fresh scan.",
    note="Bound: gpts <= 5 per axis, the value alphabets. Positions are float32 in abTEM: tolerance 2e-6 of the scan extent. Degenerate scans "
         "(gpts = 1 with endpoint) are reported as observations.",
)
STARTS = [(0.0, 0.0), (1.5, -2.0)]
ENDS = [(2.0, 2.0), (4.0, 1.0), (1.5, 3.3)]


def check(ctx):
    cases = []
    for s, e in itertools.product(range(2), range(3)):
        for ep in (False, True):
            for n in range(1, 6):
                cases.append({"kind": "line", "start": s, "end": e, "gpts": n, "sampling": None, "endpoint": ep, "how": "plain"})
            for d in (0.5, 0.7, 3.0):
                cases.append({"kind": "line", "start": s, "end": e, "gpts": None, "sampling": d, "endpoint": ep, "how": "plain"})
            for how in ("margin", "match_probe", "fractional"):
                cases.append({"kind": "line", "start": s, "end": e, "gpts": 4, "sampling": None, "endpoint": ep, "how": how})
        for ep in (False, True, [True, False]):
            for n in itertools.product(range(1, 6), repeat=2):
                if ctx.quick and n[0] > 3 and n[1] > 3:
                    continue
                cases.append({"kind": "grid", "start": s, "end": e, "gpts": list(n), "sampling": None, "endpoint": ep, "how": "plain"})
            for d in (0.5, 0.7, 3.0, [0.5, 0.7]):
                cases.append({"kind": "grid", "start": s, "end": e, "gpts": None, "sampling": d, "endpoint": ep, "how": "plain"})
            for how in ("match_probe", "fractional"):
                cases.append({"kind": "grid", "start": s, "end": e, "gpts": [3, 4], "sampling": None, "endpoint": ep, "how": how})
    for ang, n, ep in itertools.product((0.0, 30.0, 90.0, 215.0), (2, 5), (False, True)):
        cases.append({"kind": "at_position", "angle": ang, "gpts": n, "endpoint": ep})
    for g in range(4):
        cases.append({"kind": "probe", "g": g})
    depth = 2 if ctx.quick else 3
    hcases = [{"cls": cls, "endpoint": ep, "first": ev, "depth": depth} for cls in ("grid", "line") for ep in ((False, True, [True, False]) if cls == "grid" else (False, True))
              for ev in HIST_EVENTS]
    ctx.run(hcases, "run_history", space="edit-histories", batch=2,
            rule="BFS over every sequence of 12 events (assign start/end/gpts/sampling to two values each, read positions / axes / shape, copy) of length <= 1 + depth on one live GridScan / LineScan, per (class, endpoint, first event)")
    ctx.run(cases, "run_case", rule="one case per scan construction; all positions checked; probe: 9 positions per grid; non-trivial = more than one position")


HIST_EVENTS = ["start=A", "start=B", "end=A", "end=B", "gpts=A", "gpts=B", "sampling=A", "sampling=B", "positions", "axes", "shape", "copy"]
_HV = {"start=A": (0.0, 0.0), "start=B": (1.5, -2.0), "end=A": (2.0, 2.0), "end=B": (4.0, 1.0)}


def run_history(c):
    """Explicit-state BFS over edit/request histories of ONE live scan object: after every event the object must have the geometry
    its CURRENT parameters describe (the same oracle as the single-construction cases, evaluated from the parameters read back),
    the last assigned start / end / gpts must read back, and the positions must equal those of a fresh scan built from them."""
    import abtem
    from mc.bfs import bfs

    grid = c["cls"] == "grid"
    ep = tuple(c["endpoint"]) if isinstance(c["endpoint"], list) else c["endpoint"]
    gv = {"gpts=A": (4, 2) if grid else 4, "gpts=B": 3, "sampling=A": 0.5, "sampling=B": (0.5, 0.7) if grid else 0.7}

    def make(start, end, gpts):
        cls = abtem.GridScan if grid else abtem.LineScan
        return cls(start=start, end=end, gpts=gpts, endpoint=ep)

    def fresh():
        return {"sc": make((0.0, 0.0), (2.0, 2.0), (2, 3) if grid else 3), "m": {"start": (0.0, 0.0), "end": (2.0, 2.0), "gpts": (2, 3) if grid else 3}, "hist": []}

    def apply(s, ev):
        sc, m = s["sc"], s["m"]
        s["hist"].append(ev)
        try:
            if ev.startswith("start") or ev.startswith("end"):
                name = ev.split("=")[0]
                setattr(sc, name, _HV[ev])
                m[name] = _HV[ev]
            elif ev.startswith("gpts"):
                sc.gpts = gv[ev]
                m["gpts"] = gv[ev] if not grid or isinstance(gv[ev], tuple) else (gv[ev], gv[ev])
            elif ev.startswith("sampling"):
                sc.sampling = gv[ev]
                m["gpts"] = None  # decided by the library; the geometry oracle still applies
            elif ev == "positions":
                sc.get_positions()
            elif ev == "axes":
                [a.coordinates(n) for a, n in zip(sc.ensemble_axes_metadata, sc.shape)]
            elif ev == "shape":
                sc.shape, len(sc)
            elif ev == "copy":
                s["sc"] = sc.copy()
            return "ok"
        except Exception as e:  # noqa: BLE001
            return "raises:" + type(e).__name__

    def enabled(s):
        return HIST_EVENTS

    def canon(s):
        return tuple(s["hist"])

    def check(s, hist, ev, info, pre):
        out = []
        if info != "ok":
            out.append(("history/raises", "event %s after %s: %s (%s)" % (ev, list(hist), info, c)))
            return out
        sc, m = s["sc"], s["m"]
        where = "after %s" % (list(hist) + [ev])
        start, end = np.array(sc.start, float), np.array(sc.end, float)
        if tuple(start) != tuple(m["start"]) or tuple(end) != tuple(m["end"]):
            out.append(("history/start-end-readback", "%s: start/end read back %r/%r, last assigned %r/%r (%s)" % (where, tuple(start), tuple(end), m["start"], m["end"], c)))
            return out
        gp = tuple(sc.gpts) if grid else (sc.gpts,)
        # (a later start / end / sampling assignment may legitimately re-derive gpts: only the assignment itself is checked)
        if ev.startswith("gpts") and gp != (tuple(m["gpts"]) if grid else (m["gpts"],)):
            out.append(("history/gpts-readback", "%s: gpts read back %r, last assigned %r (%s)" % (where, gp, m["gpts"], c)))
            return out
        pos = np.asarray(sc.get_positions(), float)
        tol = 2e-6 * (float(np.abs(end - start).max()) + float(np.abs(np.concatenate([start, end])).max()) + 1.0)
        ref = np.asarray(make(tuple(start), tuple(end), gp if grid else gp[0]).get_positions(), float)
        if pos.shape != ref.shape or np.abs(pos - ref).max() > tol:
            out.append(("history/positions-vs-fresh", "%s: positions differ from a fresh scan with the same start/end/gpts (%s)" % (where, c)))
            return out
        eps = sc.endpoint if grid else (sc.endpoint,)
        samp = np.atleast_1d(np.array(sc.sampling, float))
        if grid:
            for i in range(2):
                n = gp[i]
                step = (end[i] - start[i]) / (n - 1 if eps[i] and n > 1 else n)
                want = start[i] + np.arange(n) * step
                got = pos[:, 0, 0] if i == 0 else pos[0, :, 1]
                if np.abs(got - want).max() > tol or (n > 1 and abs(samp[i] - step) > 1e-6 * abs(step)):
                    out.append(("history/geometry", "%s: axis %d positions %r / sampling %r, parameters say %r / %r (%s)" % (where, i, got.round(5).tolist(), samp[i], want.round(5).tolist(), step, c)))
                ax = sc.ensemble_axes_metadata[i]
                co = np.asarray(ax.coordinates(n), float)
                if np.abs(co - got).max() > tol:
                    out.append(("history/axis-metadata", "%s: axis %d coordinates %r vs positions %r (%s)" % (where, i, co.tolist(), got.tolist(), c)))
        else:
            n = gp[0]
            ext = float(np.linalg.norm(end - start))
            d = (end - start) / ext
            step = ext / (n - 1 if eps[0] and n > 1 else n)
            want = start[None] + np.arange(n)[:, None] * step * d[None]
            if np.abs(pos - want).max() > tol or (n > 1 and abs(samp[0] - step) > 1e-6 * abs(step)):
                out.append(("history/geometry", "%s: positions %r / sampling %r, parameters say %r / %r (%s)" % (where, pos.round(5).tolist(), samp[0], want.round(5).tolist(), step, c)))
            co = np.asarray(sc.ensemble_axes_metadata[0].coordinates(n), float)
            dist = np.linalg.norm(pos - pos[0], axis=1)
            if np.abs((co - co[0]) - dist).max() > tol:
                out.append(("history/axis-metadata", "%s: axis coordinates %r vs distances %r (%s)" % (where, co.tolist(), dist.tolist(), c)))
        return out

    res = bfs(fresh, apply, enabled, canon, check, c["depth"], prefix=(c["first"],))
    viol, seen = [], set()
    for key, msg, hist in res["violations"]:
        if key not in seen:
            seen.add(key)
            viol.append({"key": key, "msg": msg})
    return {"viol": viol, "obs": "%d histories %s" % (len(res["states"]), sorted(res["infos"].items())), "st": len(res["states"]), "tr": res["transitions"], "ref": res["transitions"]}


def _potential():
    import abtem
    from mc import universe as U

    return abtem.Potential(U.atoms("A1"), gpts=(16, 12), slice_thickness=2.0)


def run_case(c):
    import abtem

    viol = []

    def bad(key, msg):
        if sum(1 for v in viol if v["key"] == key) < 2:
            viol.append({"key": key, "msg": "%s (%s)" % (msg, c)})

    notes = []
    if c["kind"] in ("line", "at_position"):
        if c["kind"] == "at_position":
            sc = abtem.LineScan.at_position(center=(2.0, 1.0), extent=3.0, angle=c["angle"], gpts=c["gpts"], endpoint=c["endpoint"])
            d = np.array([np.cos(np.deg2rad(c["angle"])), np.sin(np.deg2rad(c["angle"]))])
            start, end = np.array([2.0, 1.0]) - 1.5 * d, np.array([2.0, 1.0]) + 1.5 * d
        else:
            start, end = np.array(STARTS[c["start"]]), np.array(ENDS[c["end"]])
            kw = dict(gpts=c["gpts"], sampling=c["sampling"], endpoint=c["endpoint"])
            if c["how"] == "fractional":
                pot = _potential()
                ext = np.array(pot.extent)
                sc = abtem.LineScan(start=tuple(start / ext), end=tuple(end / ext), fractional=True, potential=pot, **kw)
            else:
                sc = abtem.LineScan(start=tuple(start), end=tuple(end), **kw)
            if c["how"] == "margin":
                sc.add_margin((0.5, 1.0))
                d = (end - start) / np.linalg.norm(end - start)
                start, end = start - 0.5 * d, end + 1.0 * d
            if c["how"] == "match_probe":
                sc.match_probe(abtem.Probe(semiangle_cutoff=20, energy=100e3, gpts=(16, 12), extent=(4, 3)))
        pos = np.asarray(sc.get_positions(), dtype=np.float64)
        n = sc.gpts
        ext = float(np.linalg.norm(end - start))
        tol = 2e-6 * max(ext, 1.0) + 2e-6 * float(np.abs(np.concatenate([start, end])).max())
        if len(pos) != n or sc.shape != (n,) or len(sc) != n:
            bad("line/count", "%d positions, gpts %r, shape %r" % (len(pos), n, sc.shape))
            return {"viol": viol}
        d = (end - start) / ext
        step = sc.sampling
        want = start[None] + np.arange(n)[:, None] * step * d[None]
        if np.abs(pos - want).max() > tol:
            bad("line/spacing", "positions %r are not start + i*sampling*direction with sampling %r" % (pos.round(5).tolist(), step))
        if n > 1 or not sc.endpoint:
            last = end if sc.endpoint else end - step * d
            if np.abs(pos[-1] - last).max() > tol:
                bad("line/last-position", "last position %r, expected %r (endpoint=%r)" % (pos[-1].tolist(), last.tolist(), sc.endpoint))
        else:
            notes.append("LineScan(gpts=1, endpoint=True): the single position is the start, not the end (degenerate)")
        ax = sc.ensemble_axes_metadata[0]
        coords = np.asarray(ax.coordinates(n), float)
        dist = np.linalg.norm(pos - pos[0], axis=1)
        if np.abs((coords - coords[0]) - dist).max() > tol or abs(ax.sampling - step) > 1e-9:
            bad("line/axis-metadata", "axis coordinates %r vs distances along the line %r" % (coords.tolist(), dist.tolist()))
        return {"viol": viol, "obs": "%d" % n, "nt": n > 1, "notes": notes}
    if c["kind"] == "grid":
        start, end = np.array(STARTS[c["start"]]), np.array(ENDS[c["end"]])
        ep = tuple(c["endpoint"]) if isinstance(c["endpoint"], list) else c["endpoint"]
        kw = dict(gpts=tuple(c["gpts"]) if c["gpts"] else None, sampling=tuple(c["sampling"]) if isinstance(c["sampling"], list) else c["sampling"], endpoint=ep)
        try:
            if c["how"] == "fractional":
                pot = _potential()
                ext = np.array(pot.extent)
                sc = abtem.GridScan(start=tuple(start / ext), end=tuple(end / ext), fractional=True, potential=pot, **kw)
            else:
                sc = abtem.GridScan(start=tuple(start), end=tuple(end), **kw)
            if c["how"] == "match_probe":
                sc.match_probe(abtem.Probe(semiangle_cutoff=20, energy=100e3, gpts=(16, 12), extent=(4, 3)))
        except Exception as e:  # noqa: BLE001
            return {"viol": [], "obs": "ctor-raises:" + type(e).__name__, "nt": False, "notes": ["GridScan constructor rejected %r" % (c,)]}
        pos = np.asarray(sc.get_positions(), dtype=np.float64)
        gp = tuple(sc.gpts)
        eps = sc.endpoint
        samp = sc.sampling
        tol = 2e-6 * (float(np.abs(end - start).max()) + float(np.abs(np.concatenate([start, end])).max()) + 1.0)
        if 0 in gp:
            return {"viol": [], "obs": "empty", "nt": False, "notes": ["GridScan over a zero-extent axis given a sampling has gpts 0 (degenerate input)"]}
        if pos.shape != gp + (2,) or sc.shape != gp or len(sc) != gp[0] * gp[1]:
            bad("grid/count", "positions shape %r, gpts %r, len %r" % (pos.shape, gp, len(sc)))
            return {"viol": viol}
        for axis in range(2):
            line = pos[:, 0, 0] if axis == 0 else pos[0, :, 1]
            n = gp[axis]
            want = start[axis] + np.arange(n) * samp[axis]
            degenerate = n == 1 and eps[axis]
            if degenerate:
                notes.append("GridScan axis with gpts=1 and endpoint=True (degenerate: sampling 0)")
                continue
            if np.abs(line - want).max() > tol:
                bad("grid/spacing", "axis %d positions %r are not start + i*sampling with sampling %r" % (axis, line.round(5).tolist(), samp[axis]))
            last = end[axis] if eps[axis] else end[axis] - samp[axis]
            if abs(line[-1] - last) > tol:
                bad("grid/last-position", "axis %d last position %r, expected %r (endpoint=%r)" % (axis, line[-1], last, eps[axis]))
            ax = sc.ensemble_axes_metadata[axis]
            coords = np.asarray(ax.coordinates(n), float)
            if np.abs(coords - line).max() > tol:
                bad("grid/axis-metadata", "axis %d metadata coordinates %r vs positions %r" % (axis, coords.tolist(), line.tolist()))
        # the two coordinates are independent: x depends on the first index only, y on the second
        if np.abs(pos[:, :, 0] - pos[:, :1, 0]).max() > 0 or np.abs(pos[:, :, 1] - pos[:1, :, 1]).max() > 0:
            bad("grid/not-a-product-grid", "positions are not a Cartesian product of x and y coordinates")
        return {"viol": viol, "obs": "%r" % (gp,), "nt": gp[0] * gp[1] > 1, "notes": notes}
    # ---------------------------------------------------------------------------------------------- probes
    from abtem.core.fft import fft_shift

    gpts, ext = [((16, 12), (4.0, 3.0)), ((15, 15), (6.0, 6.0)), ((12, 9), (3.0, 4.5)), ((16, 16), (4.0, 6.0))][c["g"]]
    probe = abtem.Probe(semiangle_cutoff=22, energy=100e3, gpts=gpts, extent=ext, C10=60.0, C12=20.0, phi12=0.5, C21=300.0, phi21=1.0)
    origin = np.asarray(probe.build(abtem.CustomScan([[0.0, 0.0]]), lazy=False).array)[0]
    dx, dy = ext[0] / gpts[0], ext[1] / gpts[1]
    positions = [(0, 0), (1, 0), (3, 5), (gpts[0] // 2, gpts[1] // 2), (-2, 1), (gpts[0] + 1, 2), (0.5, 0.5), (2.37, 4.81), (-1.25, gpts[1] + 0.5)]
    worst = 0.0
    for px, py in positions:
        got = np.asarray(probe.build(abtem.CustomScan([[px * dx, py * dy]]), lazy=False).array)[0]
        whole = float(px).is_integer() and float(py).is_integer()
        want = np.roll(origin, (int(px), int(py)), axis=(0, 1)) if whole else np.asarray(fft_shift(origin, np.array([px, py], float)))
        e = float(np.abs(got - want).max()) / float(np.abs(origin).max())
        worst = max(worst, e / 2e-5)
        if not e <= 2e-5:
            bad("probe/%s-shift" % ("whole-pixel" if whole else "sub-pixel"), "probe at (%r, %r) px differs from the %s origin probe by %.3g" % (px, py, "rolled" if whole else "Fourier-shifted", e))
    # the same statement through a GridScan and every build path: eager, and lazy with batch sizes that split the scan into equal,
    # unequal and single-position blocks
    tr = len(positions) + 1
    for gp, ep in (((5, 3), False), ((8, 5), False), ((4, 3), True)):
        scan = abtem.GridScan(start=(dx, 0.0), end=(dx * (1 + 1.5 * gp[0]), dy * gp[1]), gpts=gp, endpoint=ep)
        pos = np.asarray(scan.get_positions(), float).reshape(gp + (2,))
        want = np.stack([np.stack([np.asarray(fft_shift(origin, np.array([pos[i, j, 0] / dx, pos[i, j, 1] / dy]))) for j in range(gp[1])]) for i in range(gp[0])])
        for mode in ("eager", 1, 2, 3, 7, 10, "auto"):
            built = probe.build(scan, lazy=False) if mode == "eager" else probe.build(scan, lazy=True, max_batch=mode).compute()
            got = np.asarray(built.array)
            tr += 1
            if got.shape != want.shape:
                bad("probe/gridscan-shape", "probe.build(GridScan %r, %r) has shape %r" % (gp, mode, got.shape))
                continue
            e = float(np.abs(got - want).max()) / float(np.abs(origin).max())
            worst = max(worst, e / 2e-5)
            if not e <= 2e-5:
                i = np.unravel_index(int(np.argmax(np.abs(got - want).max(axis=(-2, -1)))), gp)
                bad("probe/gridscan/%s" % ("eager" if mode == "eager" else "lazy"), "probe.build(GridScan gpts %r endpoint %r, max_batch=%r): the probe at scan index %r differs from the origin probe shifted to %r by %.3g"
                    % (gp, ep, mode, tuple(int(x) for x in i), pos[i].tolist(), e))
    # ... and through a LineScan (with and without its end point) split into equal, unequal and single-position blocks
    for n, ep in ((9, True), (7, False), (5, True)):
        scan = abtem.LineScan(start=(dx, 0.5 * dy), end=(dx * (1 + 1.5 * n), dy * 3.25), gpts=n, endpoint=ep)
        pos = np.asarray(scan.get_positions(), float)
        want = np.stack([np.asarray(fft_shift(origin, np.array([pos[i, 0] / dx, pos[i, 1] / dy]))) for i in range(n)])
        for mode in ("eager", 1, 2, 4, "auto"):
            built = probe.build(scan, lazy=False) if mode == "eager" else probe.build(scan, lazy=True, max_batch=mode).compute()
            got = np.asarray(built.array)
            tr += 1
            if got.shape != want.shape:
                bad("probe/linescan-shape", "probe.build(LineScan %r, %r) has shape %r" % (n, mode, got.shape))
                continue
            e = float(np.abs(got - want).max()) / float(np.abs(origin).max())
            worst = max(worst, e / 2e-5)
            if not e <= 2e-5:
                i = int(np.argmax(np.abs(got - want).max(axis=(-2, -1))))
                bad("probe/linescan/%s" % ("eager" if mode == "eager" else "lazy"), "probe.build(LineScan gpts %r endpoint %r, max_batch=%r): the probe at scan index %d differs from the origin probe shifted to %r by %.3g"
                    % (n, ep, mode, i, pos[i].tolist(), e))
    return {"viol": viol, "obs": "probes", "nt": True, "tr": tr, "err": worst}
