"""C31 — Poisson noise is valid, independent and reproducible.

Space: measurement types {Images, DiffractionPatterns, PolarMeasurements, RealSpaceLineProfiles} x ensemble shapes {(), (4,), (2,3)}
with IDENTICAL members x EVERY composition-rechunking of the ensemble axes (lazy) x dose in {1e2, 1e5} x samples in {1, 3} x
seeds in {0, 1, 7} x lazy/eager.
Oracle (deterministic for fixed seeds): counts are >= 0 and integral; the same seed gives the identical result on repetition;
lazy == eager for every chunking; two ensemble members with the same signal (and two samples) never receive the identical
noise array (probability of a false alarm < 1e-100 at these doses); |mean - dose*signal| <= 6 sigma / sqrt(N) for every
enumerated seed.
"""
import itertools

import numpy as np

from mc.compare import compositions

META = dict(
    engines=["product"],
    technique="exhaustive enumeration of measurement types x ensemble shapes x ALL chunkings x doses x sample counts x a fixed finite seed set; deterministic consequences checked",
    text="For 4 measurement types, 3 ensemble shapes with identical members, every composition-chunking of the ensemble axes, 2 doses, 2 sample counts and 3 "
         "seeds, noise is applied lazily and eagerly and checked for integrality, reproducibility, lazy/eager agreement, non-identical noise between "
         "members/samples and a 6-sigma bound on the mean.",
    note="Independence and expectation are statistical claims; what is decided is their finite, seed-indexed consequence (a fixed seed set: no flakiness). "
         "Bound: ensembles <= 6 members, 6x5 base arrays.",
)
TYPES = ["Images", "DiffractionPatterns", "PolarMeasurements", "RealSpaceLineProfiles"]
SHAPES = [[], [4], [2, 3]]


def check(ctx):
    cases = []
    for t, sh, dose, samples, seed in itertools.product(TYPES, SHAPES, (1e2, 1e5), (1, 3), (0, 1, 7)):
        if ctx.quick and (t not in ("Images", "DiffractionPatterns") and (seed != 1 or samples == 3)):
            continue
        cases.append({"type": t, "shape": sh, "dose": dose, "samples": samples, "seed": seed})
    ctx.run(cases, "run_case", rule="one case per (type, ensemble shape, dose, samples, seed); inside eager x2 and every chunking lazily x2; "
            "non-trivial = more than one member or sample")


def make(c, chunks=None):
    import abtem
    from abtem import measurements as M
    from abtem.core.axes import OrdinalAxis, ScanAxis

    sh = tuple(c["shape"])
    base = {"Images": (6, 5), "DiffractionPatterns": (6, 5), "PolarMeasurements": (4, 3), "RealSpaceLineProfiles": (7,)}[c["type"]]
    member = (0.01 + 0.04 * np.arange(int(np.prod(base))).reshape(base) / np.prod(base)).astype(np.float32)
    arr = np.broadcast_to(member, sh + base).copy()
    axes = [OrdinalAxis(label="p%d" % i, values=tuple(range(n))) for i, n in enumerate(sh)]
    if c["type"] == "Images":
        o = abtem.Images(arr, sampling=0.2, ensemble_axes_metadata=axes)
    elif c["type"] == "DiffractionPatterns":
        o = M.DiffractionPatterns(arr, sampling=0.1, ensemble_axes_metadata=axes, metadata={"energy": 1e5})
    elif c["type"] == "PolarMeasurements":
        o = M.PolarMeasurements(arr, radial_sampling=1.0, azimuthal_sampling=2 * np.pi / 3, ensemble_axes_metadata=axes)
    else:
        o = M.RealSpaceLineProfiles(arr, sampling=0.2, ensemble_axes_metadata=axes)
    if chunks is not None:
        o = o.ensure_lazy().rechunk(tuple(chunks) + (-1,) * len(base))
    return o, member


def noisy(c, chunks=None):
    o, member = make(c, chunks)
    out = o.poisson_noise(total_dose=c["dose"], samples=c["samples"], seed=c["seed"])
    out = out.compute() if getattr(out, "is_lazy", False) else out
    return np.asarray(out.array), member


def run_case(c):
    viol, tr = [], 0
    sh = tuple(c["shape"])

    def bad(key, msg):
        if sum(1 for v in viol if v["key"] == key) < 2:
            viol.append({"key": key, "msg": "%s (%s)" % (msg, c)})

    eager, member = noisy(c)
    tr += 1
    if (eager < 0).any() or not np.array_equal(eager, np.round(eager)):
        bad("counts/not-nonnegative-integers", "noisy counts are not non-negative whole numbers")
    want_shape = ((c["samples"],) if c["samples"] > 1 else ()) + sh + member.shape
    if eager.shape != want_shape:
        bad("shape", "noisy shape %r, expected %r" % (eager.shape, want_shape))
        return {"viol": viol}
    again, _ = noisy(c)
    tr += 1
    if not np.array_equal(eager, again):
        bad("reproducible/eager", "the same seed gave a different eager result")
    # expectation, per enumerated seed (6 sigma)
    lam = c["dose"] * member.astype(np.float64)
    flat = eager.reshape((-1,) + member.shape).astype(np.float64)
    n = flat.shape[0]
    z = (flat.mean(axis=0) - lam) / np.sqrt(lam / n)
    zmax = float(np.abs(z).max())
    if zmax > 6.0:
        bad("expectation", "mean of %d members deviates from dose*signal by %.1f sigma" % (n, zmax))
    # independence: identical-signal members / samples must not carry identical noise
    def identical_pairs(a):
        m = a.reshape((-1,) + member.shape)
        return [(i, j) for i in range(len(m)) for j in range(i + 1, len(m)) if np.array_equal(m[i], m[j])]

    ip = identical_pairs(eager)
    if ip:
        bad("independence/eager-identical-noise", "members %r of the eager result have bit-identical noise" % (ip[:3],))
    # lazy: every chunking
    if sh:
        for comp in itertools.product(*[compositions(m) for m in sh]):
            lz, _ = noisy(c, comp)
            tr += 1
            lz2, _ = noisy(c, comp)
            tr += 1
            if not np.array_equal(lz, lz2):
                bad("reproducible/lazy", "the same seed and chunking %r gave a different lazy result" % (comp,))
            if (lz < 0).any() or not np.array_equal(lz, np.round(lz)):
                bad("counts/not-nonnegative-integers", "lazy noisy counts are not non-negative whole numbers")
            single_block = all(len(x) == 1 for x in comp)
            if lz.shape != eager.shape or not np.array_equal(lz, eager):
                bad("lazy-vs-eager/%s" % ("single-block" if single_block else "several-blocks"), "chunks %r: lazy result differs from the eager one" % (comp,))
            ip = identical_pairs(lz)
            if ip:
                bad("independence/identical-noise-across-blocks" if not single_block else "independence/lazy-identical-noise",
                    "chunks %r: members %r have bit-identical noise" % (comp, ip[:3]))
    else:
        lz, _ = noisy(c, ())
        tr += 1
        if not np.array_equal(lz, eager):
            bad("lazy-vs-eager/single-block", "lazy result of a single measurement differs from the eager one")
    return {"viol": viol, "obs": "z=%.1f" % zmax, "nt": bool(sh) or c["samples"] > 1, "tr": tr, "ref": tr, "err": zmax / 6.0}
