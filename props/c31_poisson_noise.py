"""C31 — Poisson noise is valid, independent and reproducible.

Space: measurement types {Images, DiffractionPatterns, PolarMeasurements, RealSpaceLineProfiles} x ensemble shapes {(), (4,), (2,3)}
with IDENTICAL members x EVERY composition-rechunking of the ensemble axes (lazy) x dose in {1e2, 1e5} x samples in {1, 3} x
seeds in {0, 1, 7} x lazy/eager; dose also as a 2-value distribution; the transform's own axes (dose, samples) split by 'auto' chunking
under dask.chunk-size in {400B, 200B}; the same measurement object asked twice (history of length 2) with an input snapshot.
Oracle (deterministic for fixed seeds): counts are >= 0 and integral; the same seed gives the identical result on repetition;
lazy == eager for every chunking; two ensemble members with the same signal (and two samples) never receive the identical
noise array (probability of a false alarm < 1e-100 at these doses); |mean - dose*signal| <= 6 sigma / sqrt(N) for every
enumerated seed.
"""
import itertools

import numpy as np

from mc.compare import compositions

META = dict(
    engines=["product"],
    technique="exhaustive enumeration of measurement types x ensemble shapes x ALL chunkings x doses x sample counts x a fixed finite seed set; deterministic consequences checked",
    text="For 4 measurement types, 3 ensemble shapes with identical members, every composition-chunking of the ensemble axes, 2 doses, 2 sample counts and 3 "
         "seeds, noise is applied lazily and eagerly and checked for integrality, reproducibility, lazy/eager agreement, non-identical noise between "
         "members/samples and a 6-sigma bound on the mean. Dose distributions, splits of the transform's own axes under small dask.chunk-size, two calls on the same object with an input snapshot, and dose_per_area with anisotropic scan steps are enumerated as well.",
    note="Independence and expectation are statistical claims; what is decided is their finite, seed-indexed consequence (a fixed seed set: no flakiness). "
         "Bound: ensembles <= 6 members, 6x5 base arrays.",
)
TYPES = ["Images", "DiffractionPatterns", "PolarMeasurements", "RealSpaceLineProfiles"]
SHAPES = [[], [4], [2, 3]]


def check(ctx):
    cases = []
    for t, sh, dose, samples, seed in itertools.product(TYPES, SHAPES, (1e2, 1e5, [1e2, 1e5]), (1, 3), (0, 1, 7)):
        if ctx.quick and (t not in ("Images", "DiffractionPatterns") and (seed != 1 or samples == 3)):
            continue
        cases.append({"type": t, "shape": sh, "dose": dose, "samples": samples, "seed": seed})
    # dose given per AREA: the dose per measurement is dose_per_area x the area of one scan (or image) pixel, for isotropic and anisotropic steps
    for t, steps, lazy in itertools.product(("Images", "DiffractionPatterns", "PolarMeasurements"), ([0.3, 0.3], [0.2, 0.5], [0.31, 0.30]), (False, True)):
        cases.append({"kind": "per-area", "type": t, "steps": steps, "lazy": lazy, "dose": 4e5, "seed": 3})
    ctx.run(cases, "run_case", rule="one case per (type, ensemble shape, dose, samples, seed); inside eager x2 and every chunking lazily x2; "
            "non-trivial = more than one member or sample")


def make(c, chunks=None):
    import abtem
    from abtem import measurements as M
    from abtem.core.axes import OrdinalAxis, ScanAxis

    sh = tuple(c["shape"])
    base = {"Images": (6, 5), "DiffractionPatterns": (6, 5), "PolarMeasurements": (4, 3), "RealSpaceLineProfiles": (7,)}[c["type"]]
    member = (0.01 + 0.04 * np.arange(int(np.prod(base))).reshape(base) / np.prod(base)).astype(np.float32)
    arr = np.broadcast_to(member, sh + base).copy()
    axes = [OrdinalAxis(label="p%d" % i, values=tuple(range(n))) for i, n in enumerate(sh)]
    if c["type"] == "Images":
        o = abtem.Images(arr, sampling=0.2, ensemble_axes_metadata=axes)
    elif c["type"] == "DiffractionPatterns":
        o = M.DiffractionPatterns(arr, sampling=0.1, ensemble_axes_metadata=axes, metadata={"energy": 1e5})
    elif c["type"] == "PolarMeasurements":
        o = M.PolarMeasurements(arr, radial_sampling=1.0, azimuthal_sampling=2 * np.pi / 3, ensemble_axes_metadata=axes)
    else:
        o = M.RealSpaceLineProfiles(arr, sampling=0.2, ensemble_axes_metadata=axes)
    if chunks is not None:
        o = o.ensure_lazy().rechunk(tuple(chunks) + (-1,) * len(base))
    return o, member


def noisy(c, chunks=None, chunk_size=None, info=None):
    import abtem

    o, member = make(c, chunks)
    if chunk_size is None:
        out = o.poisson_noise(total_dose=c["dose"], samples=c["samples"], seed=c["seed"])
    else:  # the user setting that decides how 'auto' splits the transform's own axes (dose, samples)
        with abtem.config.set({"dask.chunk-size": chunk_size}):
            out = o.poisson_noise(total_dose=c["dose"], samples=c["samples"], seed=c["seed"])
    if info is not None and getattr(out, "is_lazy", False):
        info["chunks"] = out.array.chunks
    out = out.compute() if getattr(out, "is_lazy", False) else out
    return np.asarray(out.array), member


def run_per_area(c):
    import abtem
    from abtem import measurements as M
    from abtem.core.axes import ScanAxis

    viol = []
    sx, sy = c["steps"]
    if c["type"] == "Images":
        member = (0.01 + 0.04 * np.arange(48).reshape(8, 6) / 48).astype(np.float32)
        o = abtem.Images(member.copy(), sampling=(sx, sy))
        sig_sum, n_meas, area = float(member.sum()), member.size, sx * sy
    else:
        base = (6, 5) if c["type"] == "DiffractionPatterns" else (4, 3)
        member = (0.01 + 0.04 * np.arange(int(np.prod(base))).reshape(base) / np.prod(base)).astype(np.float32)
        arr = np.broadcast_to(member, (8, 6) + base).copy()
        axes = [ScanAxis(label="x", sampling=sx, units="Å"), ScanAxis(label="y", sampling=sy, units="Å")]
        if c["type"] == "DiffractionPatterns":
            o = M.DiffractionPatterns(arr, sampling=0.1, ensemble_axes_metadata=axes, metadata={"energy": 1e5})
        else:
            o = M.PolarMeasurements(arr, radial_sampling=1.0, azimuthal_sampling=2 * np.pi / 3, ensemble_axes_metadata=axes)
        sig_sum, n_meas, area = float(arr.sum()), arr.size, sx * sy
    if c["lazy"]:
        o = o.ensure_lazy()
    out = o.poisson_noise(dose_per_area=c["dose"], seed=c["seed"])
    out = out.compute() if getattr(out, "is_lazy", False) else out
    counts = np.asarray(out.array, dtype=np.float64)
    if (counts < 0).any() or not np.array_equal(counts, np.round(counts)):
        viol.append({"key": "counts/not-nonnegative-integers", "msg": "noisy counts are not non-negative whole numbers (%s)" % (c,)})
    lam = c["dose"] * area * sig_sum  # expected total number of counts
    z = (counts.sum() - lam) / np.sqrt(lam)
    if abs(z) > 6.0:
        viol.append({"key": "expectation/dose-per-area", "msg": "dose_per_area=%g with pixel area %g x %g: total counts %.6g, expected dose x area x signal = %.6g (%.1f sigma, ratio %.4f) (%s)" % (
            c["dose"], sx, sy, counts.sum(), lam, z, counts.sum() / lam, c)})
    return {"viol": viol, "obs": "z=%.1f" % z, "nt": True, "tr": 1, "ref": 1, "err": abs(z) / 6.0}


def run_case(c):
    if c.get("kind") == "per-area":
        return run_per_area(c)
    viol, tr = [], 0
    sh = tuple(c["shape"])

    def bad(key, msg):
        if sum(1 for v in viol if v["key"] == key) < 2:
            viol.append({"key": key, "msg": "%s (%s)" % (msg, c)})

    eager, member = noisy(c)
    tr += 1
    if (eager < 0).any() or not np.array_equal(eager, np.round(eager)):
        bad("counts/not-nonnegative-integers", "noisy counts are not non-negative whole numbers")
    dose_dist = isinstance(c["dose"], list)
    doses = np.array(c["dose"] if dose_dist else [c["dose"]], dtype=np.float64)
    lead = ((len(doses),) if dose_dist else ()) + ((c["samples"],) if c["samples"] > 1 else ())
    want_shape = lead + sh + member.shape
    if eager.shape != want_shape:
        bad("shape", "noisy shape %r, expected %r" % (eager.shape, want_shape))
        return {"viol": viol}
    again, _ = noisy(c)
    tr += 1
    if not np.array_equal(eager, again):
        bad("reproducible/eager", "the same seed gave a different eager result")
    # expectation, per enumerated seed (6 sigma)
    zmax = 0.0
    per_dose = eager.reshape((len(doses), -1) + member.shape).astype(np.float64)
    for d, flat in zip(doses, per_dose):
        lam = d * member.astype(np.float64)
        n = flat.shape[0]
        z = (flat.mean(axis=0) - lam) / np.sqrt(lam / n)
        zmax = max(zmax, float(np.abs(z).max()))
    if zmax > 6.0:
        bad("expectation", "mean of %d members deviates from dose*signal by %.1f sigma" % (n, zmax))
    # history: the SAME measurement object is asked twice; the second answer must equal the first and the input must be untouched
    o, _ = make(c)
    before = np.array(o.array, copy=True)
    first = np.asarray(o.poisson_noise(total_dose=c["dose"], samples=c["samples"], seed=c["seed"]).array)
    second = np.asarray(o.poisson_noise(total_dose=c["dose"], samples=c["samples"], seed=c["seed"]).array)
    tr += 2
    if not np.array_equal(np.asarray(o.array), before):
        bad("history/input-modified", "poisson_noise changed the measurement it was applied to (max change %.3g)" % float(np.abs(np.asarray(o.array) - before).max()))
    if not np.array_equal(first, eager) or not np.array_equal(second, first):
        bad("history/second-call-differs", "the second poisson_noise call on the same object with the same seed differs from the first (mean ratio %.3g)" % float(second.mean() / max(first.mean(), 1e-30)))
    # independence: identical-signal members / samples must not carry identical noise
    def identical_pairs(a):
        out = []
        for m in a.reshape((len(doses), -1) + member.shape):  # members of different dose are trivially different
            out += [(i, j) for i in range(len(m)) for j in range(i + 1, len(m)) if np.array_equal(m[i], m[j])]
        return out

    ip = identical_pairs(eager)
    if ip:
        bad("independence/eager-identical-noise", "members %r of the eager result have bit-identical noise" % (ip[:3],))
    # lazy: every chunking
    if sh:
        for comp in itertools.product(*[compositions(m) for m in sh]):
            lz, _ = noisy(c, comp)
            tr += 1
            lz2, _ = noisy(c, comp)
            tr += 1
            if not np.array_equal(lz, lz2):
                bad("reproducible/lazy", "the same seed and chunking %r gave a different lazy result" % (comp,))
            if (lz < 0).any() or not np.array_equal(lz, np.round(lz)):
                bad("counts/not-nonnegative-integers", "lazy noisy counts are not non-negative whole numbers")
            single_block = all(len(x) == 1 for x in comp)
            if lz.shape != eager.shape or not np.array_equal(lz, eager):
                bad("lazy-vs-eager/%s" % ("single-block" if single_block else "several-blocks"), "chunks %r: lazy result differs from the eager one" % (comp,))
            ip = identical_pairs(lz)
            if ip:
                bad("independence/identical-noise-across-blocks" if not single_block else "independence/lazy-identical-noise",
                    "chunks %r: members %r have bit-identical noise" % (comp, ip[:3]))
    else:
        lz, _ = noisy(c, ())
        tr += 1
        if not np.array_equal(lz, eager):
            bad("lazy-vs-eager/single-block", "lazy result of a single measurement differs from the eager one")
    # 'auto' chunking of the transform's own axes (dose, samples) under a small dask.chunk-size; the input stays ONE block so that
    # a disagreement is attributable to the split of exactly those axes
    nlead = len(lead)
    if nlead:
        for cs in ("400B", "200B"):
            info = {}
            try:
                lz, _ = noisy(c, tuple((m,) for m in sh), chunk_size=cs, info=info)
            except Exception as e:  # noqa: BLE001
                bad("lazy/transform-axes-split/raises/" + type(e).__name__, "dask.chunk-size=%s: lazy poisson_noise raised %s: %s" % (cs, type(e).__name__, str(e)[:120]))
                continue
            tr += 1
            ch = info.get("chunks", ())
            names = (["dose"] if dose_dist else []) + (["sample"] if c["samples"] > 1 else [])
            split = [nm for nm, cc in zip(names, ch[:nlead]) if len(cc) > 1]
            if any(len(cc) > 1 for cc in ch[nlead:nlead + len(sh)]):
                split.append("input")
            if (lz < 0).any() or not np.array_equal(lz, np.round(lz)):
                bad("counts/not-nonnegative-integers", "lazy noisy counts are not non-negative whole numbers")
            if lz.shape != eager.shape or not np.array_equal(lz, eager):
                bad("lazy-vs-eager/%s-axis-split" % "+".join(split or ["none"]), "dask.chunk-size=%s (chunks %r): lazy result differs from the eager one" % (cs, ch))
            if identical_pairs(lz):
                bad("independence/identical-noise/%s-axis-split" % "+".join(split or ["none"]), "dask.chunk-size=%s (chunks %r): members %r have bit-identical noise" % (cs, ch, identical_pairs(lz)[:3]))
    return {"viol": viol, "obs": "z=%.1f" % zmax, "nt": bool(sh) or c["samples"] > 1, "tr": tr, "ref": tr, "err": zmax / 6.0}
