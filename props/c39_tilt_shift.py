"""C39 — beam tilt acts as a lateral shift per propagation distance.

Space: tilt (tx, ty) from {0, +-2, 7.5}^2 mrad x dz in {1, 4.3, -2} x grids x energies x band-limited seeded waves and plane
waves; tilt given as metadata base tilt, as an N x 2 BeamTilt ensemble and as BeamTilt2D (x distribution with y scalar,
both distributions); and HISTORIES: every sequence (depth 2 quick / 3 thorough) of calls from a 48-event menu (6 tilt kinds incl.
an N x 2 ensemble and per-axis x / y ensembles with equal values x 2 distances x 2 grids x 2 energies) on ONE FresnelPropagator object, whose kernel is cached under a key.
Oracle: propagate(tilted wave) == fft_shift(propagate(untilted wave), +dz tan(t) / sampling); a tilted plane wave keeps
unit modulus through vacuum; every representation of the same tilts gives the same members in the same order.
"""
import itertools

import numpy as np

META = dict(
    engines=["product", "bfs"],
    technique="exhaustive enumeration of tilt pairs (all sign combinations) x distances x grids x tilt representations; metamorphic oracle (Fourier shift)",
    text="All 16 tilt pairs from {0, 2, -2, 7.5}^2 mrad, 3 distances (one negative), 3 grids, 1-2 energies, seeded band-limited waves and plane waves are "
         "propagated with the real FresnelPropagator and compared with the untilted propagation shifted by dz tan(t); the same tilts given as base "
         "tilt metadata, N x 2 ensemble and per-axis distributions must give identical members in the same order. A breadth-first search over call histories on one propagator object (48-event menu, "
         "depth 2 / 3, never merged) requires the shift law for the last call whatever the propagator was used for before.",
    note="Bound: grids <= 16x12, tilts <= 7.5 mrad (small-angle regime of the statement). Tolerance 1e-4 of max|psi|.",
)
GRIDS = [((16, 12), (0.25, 0.25)), ((12, 12), (0.3, 0.2)), ((15, 9), (0.2, 0.35))]
TV = [0.0, 2.0, -2.0, 7.5]
RTOL = 1e-4


def check(ctx):
    cases = []
    for g, e, dz in itertools.product(range(len(GRIDS)), [100e3] if ctx.quick else [80e3, 300e3], (1.0, 4.3, -2.0)):
        cases.append({"kind": "shift", "g": g, "e": e, "dz": dz})
        cases.append({"kind": "reps", "g": g, "e": e, "dz": dz})
    # histories: ONE FresnelPropagator object is used for a sequence of calls (its kernel is cached under a key); the shift law must
    # hold for the last call whatever was propagated before
    depth = 2 if ctx.quick else 3
    for first in range(len(EVENTS)):
        cases.append({"kind": "history", "first": first, "depth": depth, "e": 100e3})
    ctx.run(cases, "run_case", rule="history: BFS over all call sequences (tilt x dz x grid x energy menu of %d events) up to depth 2 quick / 3 thorough on one propagator object | shift:" % len(EVENTS) + " per (grid, energy, dz) all 16 tilt pairs x {band-limited wave, plane wave}; reps: 3 tilt representations x all members")


# event menu for the history explorer: (tilt kind, dz, grid index, energy factor)
HT = ["none", "a", "b", "ens", "ensx", "ensy"]
HTILT = {"none": (0.0, 0.0), "a": (2.0, -2.0), "b": (7.5, 0.0)}
HENS = [(0.0, 1.5), (2.0, -2.0), (-7.5, 2.0)]
HAX = (1.5, -3.0, 6.0)
EVENTS = [(t, dz, g, ef) for t in HT for dz in (1.0, 4.3) for g in (0, 1) for ef in (1.0, 2.0)]


def _hist_call(prop, ev, e0):
    """One real call on the given propagator object; returns the propagated array (members first for the ensemble event)."""
    import abtem
    from abtem.core.axes import TiltAxis

    t, dz, g, ef = ev
    gpts, samp = GRIDS[g]
    x = bandlimited(g, e0)
    if t == "ens":
        arr = np.broadcast_to(x, (len(HENS),) + x.shape).copy()
        w = abtem.Waves(arr, energy=e0 * ef, sampling=samp, ensemble_axes_metadata=[TiltAxis(label="tilt", values=tuple(HENS))])
    elif t in ("ensx", "ensy"):  # per-axis tilt ensembles with EQUAL values in different directions
        from abtem.core.axes import AxisAlignedTiltAxis

        arr = np.broadcast_to(x, (len(HAX),) + x.shape).copy()
        w = abtem.Waves(arr, energy=e0 * ef, sampling=samp, ensemble_axes_metadata=[AxisAlignedTiltAxis(direction=t[-1], values=tuple(HAX))])
    else:
        tilt = HTILT[t]
        md = {} if tilt == (0.0, 0.0) else {"base_tilt_x": tilt[0], "base_tilt_y": tilt[1]}
        w = abtem.Waves(x.copy(), energy=e0 * ef, sampling=samp, metadata=md)
    return np.asarray(prop.propagate(w, dz).array)


_EXPECT = {}


def _hist_expected(ev, e0):
    """The property's own statement for this call: the UNTILTED propagation (fresh propagator) shifted by dz tan(t) / sampling."""
    from abtem.core.fft import fft_shift
    from abtem.multislice import FresnelPropagator

    key = (ev, e0)
    if key not in _EXPECT:
        t, dz, g, ef = ev
        gpts, samp = GRIDS[g]
        base = _hist_call(FresnelPropagator(), ("none", dz, g, ef), e0)
        tilts = HENS if t == "ens" else ([(v, 0.0) for v in HAX] if t == "ensx" else ([(0.0, v) for v in HAX] if t == "ensy" else [HTILT[t]]))
        out = [np.asarray(fft_shift(base, np.array([dz * np.tan(tx * 1e-3) / samp[0], dz * np.tan(ty * 1e-3) / samp[1]]))) for tx, ty in tilts]
        _EXPECT[key] = np.stack(out) if t.startswith("ens") else out[0]
    return _EXPECT[key]


def run_history(c):
    from abtem.multislice import FresnelPropagator
    from mc.bfs import bfs

    worst = [0.0]

    def fresh():
        return {"p": FresnelPropagator(), "hist": []}

    def apply(s, ev):
        s["last"] = _hist_call(s["p"], ev, c["e"])
        s["hist"].append(ev)
        return "ok"

    def enabled(s):
        return EVENTS if s["hist"] else [EVENTS[c["first"]]]

    def canon(s):  # the cached kernel is hidden state: histories are never merged
        return tuple(s["hist"])

    def check(s, hist, ev, info, pre):
        want = _hist_expected(ev, c["e"])
        got = s["last"]
        if got.shape != want.shape:
            return [("history/shape", "call %r after %r returns shape %r, expected %r" % (ev, list(hist), got.shape, want.shape))]
        e = float(np.abs(got - want).max()) / float(np.abs(want).max())
        worst[0] = max(worst[0], e / RTOL)
        if not e <= RTOL:
            return [("history/shift-law-after-reuse", "propagate%r on a propagator that was used for %r before differs from the shifted untilted propagation by %.3g" % (ev, list(hist), e))]
        return []

    res = bfs(fresh, apply, enabled, canon, check, c["depth"])
    viol, seen = [], set()
    for key, msg, hist in res["violations"]:
        if key not in seen:
            seen.add(key)
            viol.append({"key": key, "msg": "%s (%s)" % (msg, c)})
    return {"viol": viol, "obs": "%d histories" % len(res["states"]), "st": len(res["states"]), "tr": res["transitions"], "ref": res["transitions"], "err": worst[0]}


def bandlimited(g, e):
    from abtem.antialias import antialias_aperture
    from mc.compare import rng

    gpts, samp = GRIDS[g]
    r = rng("c39", g)
    F = (r.normal(size=gpts) + 1j * r.normal(size=gpts)) * (np.asarray(antialias_aperture(gpts, samp, np)) == 1.0)
    return np.fft.ifft2(F).astype(np.complex64)


def run_case(c):
    if c["kind"] == "history":
        return run_history(c)
    import abtem
    from abtem.core.fft import fft_shift
    from abtem.multislice import FresnelPropagator

    viol, worst, tr = [], 0.0, 0
    gpts, samp = GRIDS[c["g"]]
    dz = c["dz"]

    def bad(key, msg):
        if sum(1 for v in viol if v["key"] == key) < 2:
            viol.append({"key": key, "msg": "%s (%s)" % (msg, c)})

    def prop(arr, tilt=(0.0, 0.0), axes=None):
        md = {}
        if tuple(tilt) != (0.0, 0.0):
            md = {"base_tilt_x": float(tilt[0]), "base_tilt_y": float(tilt[1])}
        w = abtem.Waves(np.array(arr, np.complex64), energy=c["e"], sampling=samp, metadata=md, ensemble_axes_metadata=axes or [])
        return np.asarray(FresnelPropagator().propagate(w, dz).array)

    x = bandlimited(c["g"], c["e"])
    if c["kind"] == "shift":
        base = prop(x)
        pw = np.ones(gpts, np.complex64)
        for tx, ty in itertools.product(TV, repeat=2):
            got = prop(x, (tx, ty))
            tr += 1
            shift = np.array([dz * np.tan(tx * 1e-3) / samp[0], dz * np.tan(ty * 1e-3) / samp[1]])
            want = np.asarray(fft_shift(base, shift))
            e = float(np.abs(got - want).max()) / float(np.abs(want).max())
            worst = max(worst, e / RTOL)
            if not e <= RTOL:
                opp = float(np.abs(got - np.asarray(fft_shift(base, -shift))).max()) / float(np.abs(want).max())
                bad("shift/%s" % ("sign" if opp <= RTOL else "magnitude"), "tilt (%r, %r) mrad, dz %r: tilted propagation differs from the shifted untilted one by %.3g (opposite sign: %.3g)" % (tx, ty, dz, e, opp))
            m = np.abs(prop(pw, (tx, ty)))
            tr += 1
            if float(np.abs(m - 1).max()) > 1e-5:
                bad("planewave/modulus", "tilted plane wave (%r, %r) has modulus deviating by %.3g after vacuum propagation" % (tx, ty, float(np.abs(m - 1).max())))
        return {"viol": viol, "obs": "ok" if not viol else viol[0]["key"], "tr": tr, "ref": tr, "err": worst}
    # ---- representations: the same tilt list as N x 2 ensemble, as x-distribution with scalar y, as both distributions
    import abtem.distributions as D
    from abtem.tilt import validate_tilt

    xs, ys = [0.0, 2.0, -7.5], [1.5, -2.0]
    potential = abtem.PotentialArray(np.zeros((1,) + gpts, np.float32), slice_thickness=abs(dz), sampling=samp)

    def run(tilt):
        pw = abtem.PlaneWave(energy=c["e"], gpts=gpts, sampling=samp, tilt=tilt)
        # content: multiply the plane wave by the band-limited test wave after building
        w = pw.build(lazy=False)
        arr = np.asarray(w.array) * x
        w2 = abtem.Waves(arr.astype(np.complex64), energy=c["e"], sampling=samp, metadata=dict(w.metadata), ensemble_axes_metadata=w.ensemble_axes_metadata)
        out = w2.multislice(potential)
        return np.asarray(out.array), out

    ref = {(tx, ty): run((tx, ty))[0] for tx in xs for ty in ys}
    tr += len(ref)
    a, oa = run((D.from_values(xs), ys[0]))
    for i, tx in enumerate(xs):
        e = float(np.abs(a[i] - ref[(tx, ys[0])]).max()) / float(np.abs(ref[(tx, ys[0])]).max())
        worst = max(worst, e / RTOL)
        if not e <= RTOL:
            bad("reps/x-distribution", "member %d of tilt=(dist, %r) differs from the scalar tilt (%r, %r) by %.3g" % (i, ys[0], tx, ys[0], e))
    b, ob = run((D.from_values(xs), D.from_values(ys)))
    for (i, tx), (j, ty) in itertools.product(enumerate(xs), enumerate(ys)):
        e = float(np.abs(b[i, j] - ref[(tx, ty)]).max()) / float(np.abs(ref[(tx, ty)]).max())
        worst = max(worst, e / RTOL)
        if not e <= RTOL:
            bad("reps/xy-distributions", "member (%d, %d) of tilt=(dist, dist) differs from the scalar tilt (%r, %r) by %.3g" % (i, j, tx, ty, e))
    pairs = [(tx, ty) for tx in xs for ty in ys]
    cc, oc = run(np.array(pairs))
    for k, (tx, ty) in enumerate(pairs):
        e = float(np.abs(cc[k] - ref[(tx, ty)]).max()) / float(np.abs(ref[(tx, ty)]).max())
        worst = max(worst, e / RTOL)
        if not e <= RTOL:
            bad("reps/nx2", "member %d of the N x 2 tilt ensemble differs from the scalar tilt (%r, %r) by %.3g" % (k, tx, ty, e))
    tr += 3
    return {"viol": viol, "obs": "ok" if not viol else viol[0]["key"], "tr": tr, "ref": tr, "err": worst}
