"""C28 — ptychographic operators honour their mathematical contracts.

Space: exit waves on shapes {(8,8), (9,7)} (seeded, plus waves with exact zeros in Fourier space) x measured amplitudes (seeded >= 0,
including zeros, and the wave's own amplitude); objects / probes / positions (integer, fractional, wrapping over the object edge) x
alpha, beta in {0, 0.3, 1} x step sizes in {1, 0.5} x fix_probe; J in {1, 2, 5} explicit scan positions in non-monotonic order, with and
without rotation and padding; window indices for ALL centre positions on a 5 x 6 object with 3 window shapes.
Oracle: |FFT(projected)| = amplitude and arg FFT(projected) = arg FFT(input) wherever both are non-zero; the projection is idempotent;
with the true object and probe and amplitude = |FFT(O P)| the r-PIE update returns O and P unchanged and adds zero error; the pixel
consecutive positions (5 previous-position kinds incl. sub-pixel parts on both sides of the pixel centre): the probe leaves at the new position's sub-pixel offset; positions are J, in the input order (pairwise differences = input differences / sampling, rotated); window indices == np.roll reference.
"""
import itertools

import numpy as np

META = dict(
    engines=["product"],
    technique="exhaustive enumeration of wave / amplitude kinds, regularisation parameters, position kinds and ALL window centres; algebraic contracts as oracle",
    text="The static operator functions of RegularizedPtychographicOperator are executed for 2 shapes x 3 wave kinds x 4 amplitude kinds (projection), 3 "
         "position kinds x 9 (alpha, beta) pairs x 2 step sizes x fix_probe (update at the fixed point), 3 position counts x rotation x padding (pixel "
         "positions) and every centre position of a 5 x 6 object x 3 window shapes (wrapped window indices).",
    note="Bound: arrays <= 13 x 12. float64 arithmetic, tolerance 1e-10. Only the regularised (r-PIE) operator's contracts are exercised; the mixed-state and "
         "simultaneous operators share the position conversion.",
)


def check(ctx):
    cases = []
    for sh, wk, ak in itertools.product(([8, 8], [9, 7]), ("seeded", "fourier-zeros", "real"), ("seeded", "with-zeros", "own", "scaled-own")):
        cases.append({"kind": "projection", "shape": sh, "wave": wk, "amp": ak})
    for pos, a, b, step, fix in itertools.product(("integer", "fractional", "wrapping"), (0.0, 0.3, 1.0), (0.0, 0.3, 1.0), (1.0, 0.5), (False, True)):
        cases.append({"kind": "update", "pos": pos, "alpha": a, "beta": b, "step": step, "fix_probe": fix})
    # consecutive scan positions: the probe arrives shifted to the PREVIOUS position's sub-pixel offset and must leave at the new one
    for pos, old in itertools.product(("integer", "fractional", "wrapping"), ("same", "minus-3.2-3.4", "plus-0.6-minus-0.7", "half", "far")):
        cases.append({"kind": "consecutive", "pos": pos, "old": old})
    for J, rot, pad in itertools.product((1, 2, 5, 6), (None, 0.3), (None, [4, 6])):
        cases.append({"kind": "positions", "J": J, "rot": rot, "pad": pad})
        if J in (2, 6):  # explicit positions AND a grid scan shape in the parameters (what preprocessing of 4-D data leaves behind)
            cases.append({"kind": "positions", "J": J, "rot": rot, "pad": pad, "grid": [J // 2, 2], "steps": None})
            cases.append({"kind": "positions", "J": J, "rot": rot, "pad": pad, "grid": [J // 2, 2], "steps": [0.5, 1.0]})
    for win in ([3, 3], [2, 4], [5, 6]):
        cases.append({"kind": "window", "win": win})
    if not ctx.quick:  # thorough: more array shapes, every ORDER of 4 explicit positions, more regularisation values and window shapes
        for sh, wk, ak in itertools.product(([12, 10], [7, 7], [5, 16]), ("seeded", "fourier-zeros", "real"), ("seeded", "with-zeros", "own", "scaled-own")):
            cases.append({"kind": "projection", "shape": sh, "wave": wk, "amp": ak})
        for perm in itertools.permutations(range(4)):
            for rot, pad, grid in itertools.product((None, 0.3, -1.2), (None, [4, 6]), (None, [2, 2])):
                cases.append({"kind": "positions", "J": 4, "rot": rot, "pad": pad, "perm": list(perm), "grid": grid, "steps": None})
        for pos, a, b, step, fix in itertools.product(("integer", "fractional", "wrapping"), (0.05, 0.6), (0.05, 0.6), (1.0, 0.25), (False, True)):
            cases.append({"kind": "update", "pos": pos, "alpha": a, "beta": b, "step": step, "fix_probe": fix})
    # consecutive scan positions: the probe arrives shifted to the PREVIOUS position's sub-pixel offset and must leave at the new one
    for pos, old in itertools.product(("integer", "fractional", "wrapping"), ("same", "minus-3.2-3.4", "plus-0.6-minus-0.7", "half", "far")):
        cases.append({"kind": "consecutive", "pos": pos, "old": old})
        for win in ([1, 1], [4, 3], [5, 1], [2, 6]):
            cases.append({"kind": "window", "win": win})
    ctx.workers = 8
    ctx.run(cases, "run_case", rule="one case per contract instance; non-trivial = all")


def run_case(c):
    from abtem import reconstruct as R
    from mc.compare import rng

    Op = R.RegularizedPtychographicOperator
    viol = []

    def bad(key, msg):
        if sum(1 for v in viol if v["key"] == key) < 2:
            viol.append({"key": key, "msg": "%s (%s)" % (msg, c)})

    if c["kind"] == "projection":
        sh = tuple(c["shape"])
        r = rng("c28p", sh, c["wave"], c["amp"])
        w = r.normal(size=sh) + 1j * r.normal(size=sh)
        if c["wave"] == "real":
            w = r.normal(size=sh).astype(complex)
        if c["wave"] == "fourier-zeros":
            F = np.fft.fft2(w)
            F[1, 2] = 0
            F[0, 0] = 0
            F[-1, 3] = 0
            w = np.fft.ifft2(F)
        F0 = np.fft.fft2(w)
        if c["amp"] == "seeded":
            A = np.abs(r.normal(size=sh))
        elif c["amp"] == "with-zeros":
            A = np.abs(r.normal(size=sh))
            A[0, 1] = 0
            A[2, 2] = 0
        elif c["amp"] == "own":
            A = np.abs(F0)
        else:
            A = 2.5 * np.abs(F0)
        w_in = w.copy()
        out, sse = Op._fourier_projection(w.copy(), A.copy(), 0.0, xp=np)
        F1 = np.fft.fft2(out)
        scale = float(A.max())
        if np.abs(np.abs(F1) - A).max() > 1e-9 * scale:
            nz = np.abs(F0) > 1e-12
            if np.abs((np.abs(F1) - A)[nz]).max() > 1e-9 * scale:
                bad("projection/amplitude", "|FFT(projected)| differs from the measured amplitude by %.3g" % float(np.abs(np.abs(F1) - A).max()))
        both = (np.abs(F0) > 1e-9) & (A > 1e-9)
        dphi = np.angle(F1[both] * np.conj(F0[both]))
        if both.any() and np.abs(dphi).max() > 1e-8:
            bad("projection/phase", "the projection changed the Fourier phase by up to %.3g rad" % float(np.abs(dphi).max()))
        out2, _ = Op._fourier_projection(out.copy(), A.copy(), 0.0, xp=np)
        if np.abs(out2 - out).max() > 1e-9 * max(float(np.abs(out).max()), 1e-30):
            bad("projection/not-idempotent", "projecting twice changes the wave by %.3g" % float(np.abs(out2 - out).max()))
        if c["amp"] == "own":
            if np.abs(out - w_in).max() > 1e-10 * float(np.abs(w_in).max()):
                bad("projection/fixed-point", "a wave with the measured amplitude is changed by the projection (%.3g)" % float(np.abs(out - w_in).max()))
            if abs(sse) > 1e-20:
                bad("projection/error-nonzero", "the error of a consistent wave is %r" % sse)
        if not (sse >= 0) or not np.isfinite(sse):
            bad("projection/error-sign", "error estimate %r" % sse)
        return {"viol": viol, "obs": "ok" if not viol else viol[0]["key"], "tr": 2}
    if c["kind"] == "update":
        r = rng("c28u", c["pos"])
        obj = np.exp(1j * 0.4 * r.normal(size=(12, 13))) * (1 + 0.1 * r.normal(size=(12, 13)))
        probe = (r.normal(size=(8, 8)) + 1j * r.normal(size=(8, 8))) * np.exp(-((np.arange(8)[:, None] - 4) ** 2 + (np.arange(8)[None] - 4) ** 2) / 6.0)
        position = {"integer": np.array([6.0, 7.0]), "fractional": np.array([5.3, 6.8]), "wrapping": np.array([0.6, 12.2])}[c["pos"]]
        params = {"alpha": c["alpha"], "beta": c["beta"], "object_step_size": c["step"], "probe_step_size": c["step"], "position_step_size": 1.0}
        p_shifted, exit_wave = Op._overlap_projection(obj.copy(), probe.copy(), position, np.round(position), xp=np)
        # reference overlap: the object window under the probe
        idx = R._wrapped_indices_2D_window(position, probe.shape, obj.shape)
        if np.abs(exit_wave - obj[idx] * p_shifted).max() > 1e-12:
            bad("overlap/definition", "exit wave is not object window x probe")
        A = np.abs(np.fft.fft2(exit_wave))
        modified, sse = Op._fourier_projection(exit_wave.copy(), A, 0.0, xp=np)
        if np.abs(modified - exit_wave).max() > 1e-10 * float(np.abs(exit_wave).max()) or abs(sse) > 1e-18:
            bad("fixed-point/projection", "the consistent exit wave is changed by the Fourier projection (%.3g, error %r)" % (float(np.abs(modified - exit_wave).max()), sse))
        o2, p2, pos2 = Op._update_function(obj.copy(), p_shifted.copy(), position.copy(), exit_wave, modified, A, fix_probe=c["fix_probe"], position_correction=None,
                                           reconstruction_parameters=params, xp=np)
        if np.abs(o2 - obj).max() > 1e-9 or np.abs(p2 - p_shifted).max() > 1e-9:
            bad("fixed-point/update", "with the true object and probe the update changes the object by %.3g and the probe by %.3g" % (float(np.abs(o2 - obj).max()), float(np.abs(p2 - p_shifted).max())))
        if np.abs(np.asarray(pos2) - position).max() > 0:
            bad("fixed-point/position", "the position changed without position correction")
        # a perturbed measurement must move the object only inside the illuminated window, and not at all with step size 0
        A2 = A * 1.3
        mod2, _ = Op._fourier_projection(exit_wave.copy(), A2, 0.0, xp=np)
        o3, p3, _ = Op._update_function(obj.copy(), p_shifted.copy(), position.copy(), exit_wave, mod2, A2, fix_probe=c["fix_probe"], position_correction=None,
                                        reconstruction_parameters=params, xp=np)
        mask = np.ones(obj.shape, bool)
        mask[idx] = False
        if np.abs((o3 - obj)[mask]).max(initial=0.0) > 0:
            bad("update/outside-window", "the object changed outside the illuminated window")
        if c["fix_probe"] and np.abs(p3 - p_shifted).max() > 0:
            bad("update/fix-probe", "fix_probe=True but the probe changed")
        return {"viol": viol, "obs": "ok" if not viol else viol[0]["key"], "tr": 4}
    if c["kind"] == "consecutive":
        from abtem.core.fft import fft_shift

        r = rng("c28c", c["pos"])
        obj = np.exp(1j * 0.4 * r.normal(size=(12, 13))) * (1 + 0.1 * r.normal(size=(12, 13)))
        probe0 = (r.normal(size=(8, 8)) + 1j * r.normal(size=(8, 8))) * np.exp(-((np.arange(8)[:, None] - 4) ** 2 + (np.arange(8)[None] - 4) ** 2) / 6.0)
        position = {"integer": np.array([6.0, 7.0]), "fractional": np.array([5.3, 6.8]), "wrapping": np.array([0.6, 12.2])}[c["pos"]]
        old = position - {"same": np.zeros(2), "minus-3.2-3.4": np.array([3.2, 3.4]), "plus-0.6-minus-0.7": np.array([-0.6, 0.7]), "half": np.array([0.5, 1.5]),
                          "far": np.array([4.45, -2.55])}[c["old"]]
        frac = lambda x: x - np.round(x)  # noqa: E731
        probe_at_old = np.asarray(fft_shift(probe0.astype(np.complex128), frac(old)))  # the state the operator keeps between positions
        p_shifted, exit_wave = Op._overlap_projection(obj.copy(), probe_at_old.copy(), position, old, xp=np)
        want = np.asarray(fft_shift(probe0.astype(np.complex128), frac(position)))  # the probe at the new position's own sub-pixel offset
        scale = float(np.abs(want).max())
        e = float(np.abs(np.asarray(p_shifted) - want).max()) / scale
        if not e <= 1e-5:
            bad("consecutive/probe-subpixel-shift", "after moving from %r to %r the probe differs from the origin probe shifted by the new sub-pixel offset %r by %.3g (relative)" % (
                old.tolist(), position.tolist(), frac(position).tolist(), e))
        idx = R._wrapped_indices_2D_window(position, probe0.shape, obj.shape)
        if np.abs(exit_wave - obj[idx] * p_shifted).max() > 1e-12:
            bad("overlap/definition", "exit wave is not object window x probe")
        return {"viol": viol, "obs": "ok" if not viol else viol[0]["key"], "tr": 2, "err": e / 1e-5}
    if c["kind"] == "positions":
        J = c["J"]
        pts = np.array([[3.0, 1.0], [0.5, 2.5], [2.0, 0.0], [4.5, 4.0], [1.0, 3.5], [3.5, 0.5]])[:J]
        if c.get("perm"):
            pts = pts[list(c["perm"])]
        sampling = (0.25, 0.5)
        params = {"grid_scan_shape": tuple(c["grid"]) if c.get("grid") else None, "scan_step_sizes": tuple(c["steps"]) if c.get("steps") else None,
                  "rotation_angle": c["rot"], "object_px_padding": c["pad"]}
        px, _ = R.AbstractPtychographicOperator._calculate_scan_positions_in_pixels(pts.copy(), sampling, (8, 8), dict(params))
        px = np.asarray(px)
        if px.shape != (J, 2):
            bad("positions/count", "%d explicit positions became an array of shape %r" % (J, px.shape))
            return {"viol": viol, "obs": "%r" % (px.shape,)}
        d_in = (pts[:, None, :] - pts[None, :, :]) / np.array(sampling)
        if c["rot"] is not None:
            a = c["rot"]
            x, y = d_in[..., 0], d_in[..., 1]
            d_in = np.stack([x * np.cos(a) + y * np.sin(a), -x * np.sin(a) + y * np.cos(a)], -1)
        d_out = px[:, None, :] - px[None, :, :]
        if np.abs(d_out - d_in).max(initial=0.0) > 1e-9:
            bad("positions/order-or-geometry", "pairwise differences of the pixel positions do not match the input positions (order lost?)")
        if (px < -1e-9).any():
            bad("positions/negative", "negative pixel positions %r" % px.min(axis=0).tolist())
        # the raster branch: nx*ny positions
        params2 = {"grid_scan_shape": (3, 2), "scan_step_sizes": (0.5, 1.0), "rotation_angle": c["rot"], "object_px_padding": c["pad"]}
        px2, _ = R.AbstractPtychographicOperator._calculate_scan_positions_in_pixels(None, sampling, (8, 8), dict(params2))
        if np.asarray(px2).shape != (6, 2):
            bad("positions/raster-count", "a 3x2 raster became %r positions" % (np.asarray(px2).shape,))
        return {"viol": viol, "obs": "%d" % J}
    win = tuple(c["win"])
    obj = np.arange(30).reshape(5, 6)
    for cx, cy in itertools.product(np.arange(-1.0, 6.5, 0.5), np.arange(-1.0, 7.5, 0.5)):
        idx = R._wrapped_indices_2D_window(np.array([cx, cy]), win, obj.shape)
        got = obj[idx]
        ox, oy = int(np.round(cx)) - win[0] // 2, int(np.round(cy)) - win[1] // 2
        want = np.roll(obj, (-ox, -oy), axis=(0, 1))[: win[0], : win[1]]
        if got.shape != win or not np.array_equal(got, want):
            bad("window/indices", "window %r centred at (%r, %r): got %r, np.roll reference %r" % (win, cx, cy, got.tolist(), want.tolist()))
    return {"viol": viol, "obs": "window", "tr": 15 * 17}
