"""C25 — each atomic potential parametrization is internally consistent.

Space: EVERY element present in the Lobato, Kirkland and Peng tables (complete) x radii log-spaced in [0.02, 4] A x spatial
frequencies in [0, 6] 1/A (quick: 8 radii / 6 frequencies for the integral identities; thorough: 24 / 16).
Oracle: potential(r) > 0 and strictly decreasing; scattering_factor(k^2) > 0 and strictly decreasing;
projected_potential(r) == 2 * int_0^inf potential(sqrt(r^2 + z^2)) dz (Gauss-Legendre panels);
projected_scattering_factor(k^2) == 2 pi * int projected_potential(r) J0(2 pi k r) r dr (the convention the infinite-projection
integrator relies on); scattering_factor / projected_scattering_factor is ONE constant for all elements and k, so a unit
convention cannot alarm while a wrong coefficient scaling of any element or function kind does.
"""
import numpy as np

META = dict(
    engines=["product", "bfs"],
    technique="exhaustive enumeration of all elements of all three parametrization tables x radius / frequency grids; quadrature reference for the integral identities",
    text="For every element in each of the three tables the four function kinds are evaluated on radius and frequency grids; positivity and "
         "monotonicity are checked pointwise, the projected potential against a z-quadrature of the 3-D potential, the projected scattering factor "
         "against a Hankel quadrature of the projected potential, and the ratio of the two scattering-factor kinds against one global constant. "
         "Every 6th element (thorough: every element up to Z = 98) is re-fitted through the public fit() of the Lobato and Kirkland forms to the scattering factor of the other table and the fitted element must satisfy the same integral identities. A breadth-first search over request histories (which function kinds were asked of the same object before, depth 3 quick / 4 thorough, "
         "x 5 ways of holding the parameter table) requires every answer to equal a fresh object's and the table to stay unchanged.",
    note="Bound: r in [0.02, 4] A, k in [0, 6] 1/A, neutral atoms. Quadrature: composite Gauss-Legendre, tolerance 3e-4 relative (observed <= 3e-5). "
         "Elements are enumerated from the tables themselves, so an added element is picked up.",
)
TABLES = ["lobato", "kirkland", "peng"]


def check(ctx):
    from abtem.parametrizations import validate_parametrization

    cases = []
    for t in TABLES:
        p = validate_parametrization(t)
        for sym in p.parameters:
            cases.append({"table": t, "symbol": sym, "nr": 8 if ctx.quick else 24, "nk": 6 if ctx.quick else 16})
    ctx.run(cases, "run_case", rule="one case per (table, element); non-trivial = all", batch=4)
    # re-fitted elements (public fit(): Lobato form fitted to Kirkland scattering factors and the reverse)
    from ase.data import chemical_symbols
    fsyms = [chemical_symbols[z] for z in (range(1, 99, 6) if ctx.quick else range(1, 99))]
    ctx.run([{"table": t, "symbol": s_} for t in ("lobato", "kirkland") for s_ in fsyms], "run_fit", space="fitted-elements", batch=2,
            rule="(form, element): the form is fitted to the other table scattering factor on k in [0, 6]; the fitted element's four function kinds must be finite and mutually consistent")
    # histories: a parametrization object is asked for several function kinds one after another; every answer must be the one a
    # fresh default object gives, whatever was requested before and however the parameter table is held (lists / ndarrays / json)
    depth = 3 if ctx.quick else 4
    syms = ["C", "Au"] if ctx.quick else ["H", "C", "Si", "Au"]
    hcases = [{"table": t, "symbol": s_, "source": src, "first": k, "depth": depth}
              for t in TABLES for s_ in syms for src in SOURCES for k in KINDS]
    ctx.run(hcases, "run_history", space="request-histories", batch=2,
            rule="BFS over all request sequences (4 function kinds + line_profiles) up to the depth, per (table, symbol, table source, first request)")


def run_fit(c):
    """An element re-fitted through the public fit() (Lobato <-> Kirkland scattering factors, the route GPAWParametrization uses) is an
    element the parametrization supports: its four function kinds must be finite and describe ONE atom."""
    from ase.data import atomic_numbers
    from abtem.parametrizations import KirklandParametrization, LobatoParametrization
    from scipy.special import j0

    viol, worst = [], 0.0

    def bad(key, msg):
        if not any(v["key"] == key for v in viol):
            viol.append({"key": key, "msg": "%s (%s)" % (msg, c)})

    sym = c["symbol"]
    cls, other = (LobatoParametrization, KirklandParametrization) if c["table"] == "lobato" else (KirklandParametrization, LobatoParametrization)
    kfit = np.linspace(0.0, 6.0, 200)
    target = np.asarray(other().scattering_factor(sym)(kfit ** 2), float)
    p = cls()
    try:
        p.fit(atomic_numbers[sym], kfit, target)
    except Exception as e:  # noqa: BLE001
        return {"viol": [], "obs": "fit-raises:" + type(e).__name__, "nt": False}
    V, Vp, f, fp = p.potential(sym), p.projected_potential(sym), p.scattering_factor(sym), p.projected_scattering_factor(sym)
    r = np.geomspace(0.05, 3.0, 8)
    k = np.linspace(0.0, 5.0, 6)
    vals = {"potential": np.asarray(V(r), float), "projected_potential": np.asarray(Vp(r), float), "scattering_factor": np.asarray(f(k ** 2), float),
            "projected_scattering_factor": np.asarray(fp(k ** 2), float)}
    for name, v in vals.items():
        if not np.all(np.isfinite(v)):
            bad("fit/not-finite/" + name, "after fit(): %s of %s is not finite: %r" % (name, sym, v[:4].tolist()))
    if viol:
        return {"viol": viol, "obs": viol[0]["key"], "tr": 5, "ref": 1, "err": 0.0}
    fit_err = float(np.abs(np.asarray(f(kfit ** 2), float) - target).max() / target.max())
    z, wz = panels([0.0, 0.05, 0.5, 3.0, 10.0, 40.0], 120)
    num = np.array([2.0 * np.sum(wz * np.asarray(V(np.sqrt(ri ** 2 + z ** 2)), float)) for ri in r])
    e = float(np.abs(vals["projected_potential"] - num).max() / np.abs(num).max())
    worst = max(worst, e / 3e-4)
    if not e <= 3e-4:
        bad("fit/projected-potential/vs-quadrature", "after fit(): projected_potential of %s differs from the z-quadrature of its potential by %.3g of the maximum" % (sym, e))
    rq, wq = panels([0.0, 0.02, 0.2, 1.0, 3.0, 8.0, 30.0], 300)
    vp = np.asarray(Vp(rq), float)
    hank = np.array([2 * np.pi * np.sum(wq * vp * j0(2 * np.pi * ki * rq) * rq) for ki in k])
    e = float(np.abs(vals["projected_scattering_factor"] - hank).max() / np.abs(hank).max())
    worst = max(worst, e / 3e-4)
    if not e <= 3e-4:
        bad("fit/projected-scattering-factor/vs-hankel", "after fit(): projected_scattering_factor of %s differs from the Hankel transform of its projected potential by %.3g of the maximum" % (sym, e))
    e = float(np.abs(vals["scattering_factor"] - 0.020886643 * vals["projected_scattering_factor"]).max() / np.abs(vals["scattering_factor"]).max())
    worst = max(worst, e / 5e-4)
    if not e <= 5e-4:
        bad("fit/scattering-factor-ratio", "after fit(): scattering_factor and projected_scattering_factor of %s are not proportional by the common constant (%.3g)" % (sym, e))
    return {"viol": viol, "obs": "fit residual %.0e" % fit_err, "tr": 5, "ref": 3, "err": worst}


def gl(a, b, n):
    x, w = np.polynomial.legendre.leggauss(n)
    return 0.5 * (b - a) * x + 0.5 * (b + a), 0.5 * (b - a) * w


def panels(edges, n):
    xs, ws = [], []
    for a, b in zip(edges[:-1], edges[1:]):
        x, w = gl(a, b, n)
        xs.append(x)
        ws.append(w)
    return np.concatenate(xs), np.concatenate(ws)


_RATIO = {}
SOURCES = ["default", "ndarray-float64", "tuples", "json-roundtrip", "own-copy-of-default"]
KINDS = ["potential", "projected_potential", "scattering_factor", "projected_scattering_factor", "line_profiles"]


def _make(table, source):
    """A real parametrization object whose parameter table is held the way `source` says (all legal per the class docstring)."""
    import copy
    import os
    import tempfile

    from abtem.parametrizations import validate_parametrization

    base = validate_parametrization(table)
    cls = type(base)
    if source == "default":
        return base
    if source == "own-copy-of-default":
        return cls(parameters=copy.deepcopy(base.parameters))
    if source == "ndarray-float64":
        return cls(parameters={k: np.array(v, dtype=np.float64) for k, v in base.parameters.items()})
    if source == "tuples":
        return cls(parameters={k: tuple(tuple(r) for r in np.array(v).tolist()) for k, v in base.parameters.items()})
    if source == "json-roundtrip":
        src = cls(parameters={k: np.array(v, dtype=np.float64) for k, v in base.parameters.items()})
        d = tempfile.mkdtemp(dir="/dev/shm" if os.path.isdir("/dev/shm") else None)
        try:
            f = os.path.join(d, "p.json")
            src.to_json(f)
            out = cls()
            out.from_json(f)
        finally:
            import shutil

            shutil.rmtree(d, ignore_errors=True)
        return out
    raise ValueError(source)


def _observe(p, kind, sym):
    r = np.geomspace(0.02, 4.0, 12)
    k = np.linspace(0.0, 6.0, 9)
    if kind == "line_profiles":
        prof = p.line_profiles(sym, cutoff=3.0, sampling=0.25, name="potential")
        return np.asarray(prof.array, float).ravel()
    f = getattr(p, kind)(sym)
    return np.asarray(f(r if kind in ("potential", "projected_potential") else k ** 2), float)


def run_history(c):
    """Explicit-state BFS: a state is the request history on ONE live parametrization object (rebuilt from scratch per history)."""
    from mc.bfs import bfs
    from abtem.parametrizations import validate_parametrization

    sym = c["symbol"]
    fresh_ref = {}
    for kind in KINDS:
        try:
            fresh_ref[kind] = _observe(validate_parametrization(c["table"]), kind, sym)
        except Exception as e:  # noqa: BLE001  (a kind the parametrization does not offer: outcome class must agree)
            fresh_ref[kind] = "raises:" + type(e).__name__
    snap0 = np.array(validate_parametrization(c["table"]).parameters[sym], dtype=float)
    worst = [0.0]

    def fresh():
        return {"p": _make(c["table"], c["source"]), "hist": []}

    def apply(s, ev):
        try:
            s["last"] = _observe(s["p"], ev, sym)
        except Exception as e:  # noqa: BLE001
            s["last"] = "raises:" + type(e).__name__
        s["hist"].append(ev)
        return "ok" if not isinstance(s["last"], str) else s["last"]

    def enabled(s):
        return KINDS if s["hist"] else [c["first"]]

    def canon(s):  # hidden state is the object of study: never merge two histories
        return tuple(s["hist"])

    def check(s, hist, ev, info, pre):
        out = []
        ref, got = fresh_ref[ev], s["last"]
        if isinstance(ref, str) or isinstance(got, str):
            if str(ref) != str(got) if isinstance(ref, str) or isinstance(got, str) else False:
                out.append(("history/outcome-class/" + ev, "request %s after %s: %s, a fresh object: %s (%s)" % (ev, list(hist), got if isinstance(got, str) else "ok", ref if isinstance(ref, str) else "ok", c)))
        else:
            e = float(np.max(np.abs(got - ref)) / np.max(np.abs(ref)))
            worst[0] = max(worst[0], e / 1e-9)
            if not e <= 1e-9:
                out.append(("history/" + ev + "/differs-from-fresh", "%s(%s) requested after %s from a %s table differs from a fresh object's by %.3g relative (%s)" % (ev, sym, list(hist), c["source"], e, c)))
        now = np.array(s["p"].parameters[sym], dtype=float)
        if now.shape != snap0.shape or not np.array_equal(now, snap0):
            out.append(("history/parameter-table-modified", "the parameter table entry of %s changed after requests %s (max change %.3g) (%s)" % (sym, list(hist) + [ev], float(np.max(np.abs(now - snap0))) if now.shape == snap0.shape else -1, c)))
        return out

    res = bfs(fresh, apply, enabled, canon, check, c["depth"])
    viol, seen = [], set()
    for key, msg, hist in res["violations"]:
        if key not in seen:
            seen.add(key)
            viol.append({"key": key, "msg": msg})
    return {"viol": viol, "obs": "%d histories %s" % (len(res["states"]), sorted(res["infos"].items())), "st": len(res["states"]),
            "tr": res["transitions"], "ref": res["transitions"], "err": worst[0]}


def run_case(c):
    from abtem.parametrizations import validate_parametrization
    from scipy.special import j0

    viol, worst = [], 0.0

    def bad(key, msg):
        viol.append({"key": key, "msg": "%s (%s)" % (msg, c)})

    p = validate_parametrization(c["table"])
    sym = c["symbol"]
    try:
        V, Vp, f, fp = p.potential(sym), p.projected_potential(sym), p.scattering_factor(sym), p.projected_scattering_factor(sym)
    except Exception as e:  # noqa: BLE001
        return {"viol": [], "obs": "unsupported:" + type(e).__name__, "nt": False, "notes": ["%s: function kind unavailable for %s" % (c["table"], sym)]}
    r = np.geomspace(0.02, 4.0, 24)
    k = np.linspace(0.0, 6.0, 16)
    v = np.asarray(V(r), float)
    if not np.all(v > 0):
        bad("potential/not-positive", "potential(r) <= 0 at r = %r" % r[v <= 0][:3].tolist())
    if not np.all(np.diff(v) < 0):
        bad("potential/not-decreasing", "potential(r) increases near r = %r" % r[1:][np.diff(v) >= 0][:3].tolist())
    fv = np.asarray(f(k ** 2), float)
    if not np.all(fv > 0):
        bad("scattering-factor/not-positive", "scattering_factor <= 0 at k = %r" % k[fv <= 0][:3].tolist())
    if not np.all(np.diff(fv) < 0):
        bad("scattering-factor/not-decreasing", "scattering_factor increases near k = %r" % k[1:][np.diff(fv) >= 0][:3].tolist())
    # projected potential == z-integral of the potential
    rr = np.geomspace(0.05, 3.0, c["nr"])
    z, wz = panels([0.0, 0.05, 0.5, 3.0, 10.0, 40.0], 120)
    num = np.array([2.0 * np.sum(wz * np.asarray(V(np.sqrt(ri ** 2 + z ** 2)), float)) for ri in rr])
    got = np.asarray(Vp(rr), float)
    e = float(np.abs(got / num - 1).max())
    worst = max(worst, e / 3e-4)
    if not e <= 3e-4:
        i = int(np.argmax(np.abs(got / num - 1)))
        bad("projected-potential/vs-quadrature", "projected_potential(%.3f) = %r, quadrature of the 3-D potential gives %r" % (rr[i], got[i], num[i]))
    # projected scattering factor == 2 pi Hankel transform of the projected potential
    kk = np.linspace(0.0, 5.0, c["nk"])
    rq, wq = panels([0.0, 0.02, 0.2, 1.0, 3.0, 8.0, 30.0], 300)
    vp = np.asarray(Vp(rq), float)
    hank = np.array([2 * np.pi * np.sum(wq * vp * j0(2 * np.pi * ki * rq) * rq) for ki in kk])
    gotf = np.asarray(fp(kk ** 2), float)
    e = float(np.abs(gotf / hank - 1).max())
    worst = max(worst, e / 3e-4)
    if not e <= 3e-4:
        i = int(np.argmax(np.abs(gotf / hank - 1)))
        bad("projected-scattering-factor/vs-hankel", "projected_scattering_factor(k=%.2f) = %r, 2 pi Hankel transform of the projected potential = %r" % (kk[i], gotf[i], hank[i]))
    # finite-slab projection (where the parametrization offers it): whole axis == projected potential; slab [a, b] == quadrature of the 3-D potential
    try:
        Vf = p.finite_projected_potential(sym)
    except Exception:  # noqa: BLE001  (only the Peng form has an analytic finite projection)
        Vf = None
    if Vf is not None:
        rs = np.geomspace(0.1, 3.0, 6)
        whole = np.asarray(Vf(rs, -np.inf, np.inf), float)
        e = float(np.abs(whole / np.asarray(Vp(rs), float) - 1).max())
        worst = max(worst, e / 3e-4)
        if not e <= 3e-4:
            bad("finite-projection/whole-axis-vs-projected", "finite_projected_potential(r, -inf, inf) differs from projected_potential(r) by %.3g (relative)" % e)
        for a_, b_ in ((-0.7, 1.3), (0.0, 0.5), (2.0, 3.5)):
            zz, ww = panels(list(np.linspace(a_, b_, 5)), 60)
            quad = np.array([np.sum(ww * np.asarray(V(np.sqrt(ri ** 2 + zz ** 2)), float)) for ri in rs])
            slab = np.asarray(Vf(rs, a_, b_), float)
            e = float(np.abs((slab - quad) / whole).max())  # relative to the whole-axis projection: far slabs contribute almost nothing
            worst = max(worst, e / 3e-4)
            if not e <= 3e-4:
                bad("finite-projection/slab-vs-quadrature", "finite_projected_potential(r, %r, %r) differs from the z-quadrature of the 3-D potential by %.3g of the whole-axis projection" % (a_, b_, e))
    # one global constant between the two scattering-factor kinds
    ratio = np.asarray(f(k ** 2), float) / np.asarray(fp(k ** 2), float)
    ref = _RATIO.setdefault("ref", 0.020886643)  # measured once on the unchanged tree: h^2 / (2 pi m e) in these units
    e = float(np.abs(ratio / ref - 1).max())
    worst = max(worst, e / 5e-4)  # the tables are rounded: He in the Lobato table deviates by 1.0e-4, everything else by < 3e-5
    if not e <= 5e-4:
        bad("scattering-factor-ratio", "scattering_factor / projected_scattering_factor = %r..%r, every other element gives %r" % (ratio.min(), ratio.max(), ref))
    return {"viol": viol, "obs": "ok" if not viol else viol[0]["key"], "tr": 4, "ref": 4, "err": worst}
