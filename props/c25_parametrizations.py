"""C25 — each atomic potential parametrization is internally consistent.

Space: EVERY element present in the Lobato, Kirkland and Peng tables (complete) x radii log-spaced in [0.02, 4] A x spatial
frequencies in [0, 6] 1/A (quick: 8 radii / 6 frequencies for the integral identities; thorough: 24 / 16).
Oracle: potential(r) > 0 and strictly decreasing; scattering_factor(k^2) > 0 and strictly decreasing;
projected_potential(r) == 2 * int_0^inf potential(sqrt(r^2 + z^2)) dz (Gauss-Legendre panels);
projected_scattering_factor(k^2) == 2 pi * int projected_potential(r) J0(2 pi k r) r dr (the convention the infinite-projection
integrator relies on); scattering_factor / projected_scattering_factor is ONE constant for all elements and k, so a unit
convention cannot alarm while a wrong coefficient scaling of any element or function kind does.
"""
import numpy as np

META = dict(
    engines=["product"],
    technique="exhaustive enumeration of all elements of all three parametrization tables x radius / frequency grids; quadrature reference for the integral identities",
    text="For every element in each of the three tables the four function kinds are evaluated on radius and frequency grids; positivity and "
         "monotonicity are checked pointwise, the projected potential against a z-quadrature of the 3-D potential, the projected scattering factor "
         "against a Hankel quadrature of the projected potential, and the ratio of the two scattering-factor kinds against one global constant.",
    note="Bound: r in [0.02, 4] A, k in [0, 6] 1/A, neutral atoms. Quadrature: composite Gauss-Legendre, tolerance 3e-4 relative (observed <= 3e-5). "
         "Elements are enumerated from the tables themselves, so an added element is picked up.",
)
TABLES = ["lobato", "kirkland", "peng"]


def check(ctx):
    from abtem.parametrizations import validate_parametrization

    cases = []
    for t in TABLES:
        p = validate_parametrization(t)
        for sym in p.parameters:
            cases.append({"table": t, "symbol": sym, "nr": 8 if ctx.quick else 24, "nk": 6 if ctx.quick else 16})
    ctx.run(cases, "run_case", rule="one case per (table, element); non-trivial = all", batch=4)


def gl(a, b, n):
    x, w = np.polynomial.legendre.leggauss(n)
    return 0.5 * (b - a) * x + 0.5 * (b + a), 0.5 * (b - a) * w


def panels(edges, n):
    xs, ws = [], []
    for a, b in zip(edges[:-1], edges[1:]):
        x, w = gl(a, b, n)
        xs.append(x)
        ws.append(w)
    return np.concatenate(xs), np.concatenate(ws)


_RATIO = {}


def run_case(c):
    from abtem.parametrizations import validate_parametrization
    from scipy.special import j0

    viol, worst = [], 0.0

    def bad(key, msg):
        viol.append({"key": key, "msg": "%s (%s)" % (msg, c)})

    p = validate_parametrization(c["table"])
    sym = c["symbol"]
    try:
        V, Vp, f, fp = p.potential(sym), p.projected_potential(sym), p.scattering_factor(sym), p.projected_scattering_factor(sym)
    except Exception as e:  # noqa: BLE001
        return {"viol": [], "obs": "unsupported:" + type(e).__name__, "nt": False, "notes": ["%s: function kind unavailable for %s" % (c["table"], sym)]}
    r = np.geomspace(0.02, 4.0, 24)
    k = np.linspace(0.0, 6.0, 16)
    v = np.asarray(V(r), float)
    if not np.all(v > 0):
        bad("potential/not-positive", "potential(r) <= 0 at r = %r" % r[v <= 0][:3].tolist())
    if not np.all(np.diff(v) < 0):
        bad("potential/not-decreasing", "potential(r) increases near r = %r" % r[1:][np.diff(v) >= 0][:3].tolist())
    fv = np.asarray(f(k ** 2), float)
    if not np.all(fv > 0):
        bad("scattering-factor/not-positive", "scattering_factor <= 0 at k = %r" % k[fv <= 0][:3].tolist())
    if not np.all(np.diff(fv) < 0):
        bad("scattering-factor/not-decreasing", "scattering_factor increases near k = %r" % k[1:][np.diff(fv) >= 0][:3].tolist())
    # projected potential == z-integral of the potential
    rr = np.geomspace(0.05, 3.0, c["nr"])
    z, wz = panels([0.0, 0.05, 0.5, 3.0, 10.0, 40.0], 120)
    num = np.array([2.0 * np.sum(wz * np.asarray(V(np.sqrt(ri ** 2 + z ** 2)), float)) for ri in rr])
    got = np.asarray(Vp(rr), float)
    e = float(np.abs(got / num - 1).max())
    worst = max(worst, e / 3e-4)
    if not e <= 3e-4:
        i = int(np.argmax(np.abs(got / num - 1)))
        bad("projected-potential/vs-quadrature", "projected_potential(%.3f) = %r, quadrature of the 3-D potential gives %r" % (rr[i], got[i], num[i]))
    # projected scattering factor == 2 pi Hankel transform of the projected potential
    kk = np.linspace(0.0, 5.0, c["nk"])
    rq, wq = panels([0.0, 0.02, 0.2, 1.0, 3.0, 8.0, 30.0], 300)
    vp = np.asarray(Vp(rq), float)
    hank = np.array([2 * np.pi * np.sum(wq * vp * j0(2 * np.pi * ki * rq) * rq) for ki in kk])
    gotf = np.asarray(fp(kk ** 2), float)
    e = float(np.abs(gotf / hank - 1).max())
    worst = max(worst, e / 3e-4)
    if not e <= 3e-4:
        i = int(np.argmax(np.abs(gotf / hank - 1)))
        bad("projected-scattering-factor/vs-hankel", "projected_scattering_factor(k=%.2f) = %r, 2 pi Hankel transform of the projected potential = %r" % (kk[i], gotf[i], hank[i]))
    # one global constant between the two scattering-factor kinds
    ratio = np.asarray(f(k ** 2), float) / np.asarray(fp(k ** 2), float)
    ref = _RATIO.setdefault("ref", 0.020886643)  # measured once on the unchanged tree: h^2 / (2 pi m e) in these units
    e = float(np.abs(ratio / ref - 1).max())
    worst = max(worst, e / 5e-4)  # the tables are rounded: He in the Lobato table deviates by 1.0e-4, everything else by < 3e-5
    if not e <= 5e-4:
        bad("scattering-factor-ratio", "scattering_factor / projected_scattering_factor = %r..%r, every other element gives %r" % (ratio.min(), ratio.max(), ref))
    return {"viol": viol, "obs": "ok" if not viol else viol[0]["key"], "tr": 4, "ref": 4, "err": worst}
