"""C38 — results do not depend on the FFT backend or precision setting.

Space: the COMPLETE supported configuration space fft in {numpy, fftw} x fftw.planning_effort in {FFTW_ESTIMATE, FFTW_MEASURE,
FFTW_PATIENT (thorough)} x fftw.threads in {1, 2} x precision in {float32, float64} (mkl is not installed: must be rejected)
x pipelines {probe build, plane-wave multislice, STEM scan with 3 detectors, PRISM reduction, Images.interpolate,
diffraction_patterns, Images.gaussian_filter, lazy multislice}.
Oracle: every configuration agrees with the reference configuration (numpy, float64) to 2e-5 of the maximum (single-precision accuracy); output dtypes follow `precision` (mismatches are observations, only value disagreement is a violation).
"""
import itertools

import numpy as np

META = dict(
    engines=["product"],
    technique="exhaustive enumeration of the complete FFT-backend / planning / threads / precision configuration space x simulation pipelines; differential oracle",
    text="Each of 8 pipelines is executed under every supported combination of fft backend, FFTW planning effort, FFTW threads and precision (10 "
         "configurations quick, 14 thorough; the unsupported mkl backend must be rejected) and compared with the numpy/float64 reference. Pipelines that reuse FFT plans and buffers (eager multi-configuration runs, one propagator over four arrays), fftn / ifftn over every contiguous axis subset of 3-5-D arrays and one FFTW_PATIENT configuration are part of the quick tier.",
    note="Bound: the installed backends (numpy, fftw); grids <= 24x24. Tolerance 2e-5 of max. The "
         "configuration is switched with abtem.config.set inside one worker process; FFTW wisdom accumulated earlier in the process is part of "
         "the explored environment.",
)
PIPES = ["probe", "pw_multislice", "stem", "prism", "interpolate", "diffraction", "gaussian", "lazy_multislice",
         "eager_fp_multislice", "eager_fp_stem", "propagator_reuse", "prism_fp", "fftn_axes", "interpolate3d", "source_reused"]


def configs(quick):
    out = []
    for prec in ("float32", "float64"):
        out.append({"fft": "numpy", "precision": prec})
        for eff, th in itertools.product(("FFTW_ESTIMATE", "FFTW_MEASURE") if quick else ("FFTW_ESTIMATE", "FFTW_MEASURE", "FFTW_PATIENT"), (1, 2)):
            out.append({"fft": "fftw", "precision": prec, "fftw.planning_effort": eff, "fftw.threads": th})
    if quick:  # the patient planner measures candidate plans on the arrays it is given: one configuration of it in the quick tier too
        out.append({"fft": "fftw", "precision": "float32", "fftw.planning_effort": "FFTW_PATIENT", "fftw.threads": 1})
    return out


def check(ctx):
    cases = [{"pipe": p, "cfg": cfg} for p in PIPES for cfg in configs(ctx.quick)]
    cases += [{"pipe": p, "cfg": {"fft": "mkl", "precision": "float32"}} for p in ("probe",)]
    ctx.run(cases, "run_case", batch=2, rule="one case per (pipeline, configuration); non-trivial = the configuration differs from the reference")


def pipeline(name):
    import abtem
    from mc import universe as U
    from mc.compare import rng

    if name == "probe":
        return np.asarray(abtem.Probe(semiangle_cutoff=22, energy=1e5, gpts=(24, 20), extent=(6, 5), C10=50.0, C30=1e4).build(abtem.CustomScan([[1.0, 2.0], [3.3, 0.4]]), lazy=False).array)
    if name == "pw_multislice":
        return np.asarray(abtem.PlaneWave(energy=1e5).multislice(U.potential("atoms", gpts=(24, 18)), lazy=False).array)
    if name == "lazy_multislice":
        return np.asarray(abtem.PlaneWave(energy=1e5).multislice(U.potential("fp2", gpts=(24, 18)), lazy=True).compute().array)
    if name == "eager_fp_multislice":  # several configurations through ONE eager call: plan / buffer caches are reused between them
        return np.asarray(abtem.PlaneWave(energy=1e5).multislice(U.potential("fp3", gpts=(24, 18)), lazy=False).array)
    if name == "eager_fp_stem":
        out = abtem.Probe(semiangle_cutoff=22, energy=1e5).multislice(U.potential("fp2", gpts=(24, 18)), scan=abtem.CustomScan([[1.0, 0.5], [2.2, 1.4], [0.1, 0.9]]),
                                                                     detectors=abtem.PixelatedDetector(max_angle="valid"), lazy=False)
        return np.asarray(out.array)
    if name == "prism_fp":
        S = abtem.SMatrix(potential=U.potential("fp2", gpts=(24, 18)), semiangle_cutoff=20, energy=1e5, interpolation=1, downsample=False)
        return np.asarray(S.reduce(scan=abtem.CustomScan([[1.0, 0.5], [2.2, 1.4]]), lazy=False).array)
    if name == "fftn_axes":  # the n-dimensional transforms over EVERY contiguous trailing / leading / inner axis subset of 3-, 4- and 5-D arrays
        from abtem.core.fft import fftn, ifftn
        from abtem.core.utils import get_dtype

        r = rng("c38", name)
        outs = []
        for shape in ((4, 5, 6), (2, 4, 5, 6), (2, 3, 4, 5, 6)):
            x = (r.normal(size=shape) + 1j * r.normal(size=shape)).astype(get_dtype(complex=True))
            nd = len(shape)
            for k in (2, 3):
                for axes in (tuple(range(nd - k, nd)), tuple(range(-k, 0)), tuple(range(0, k))):
                    outs.append(np.ravel(np.asarray(fftn(x.copy(), axes=axes))) / np.sqrt(x.size))
                    outs.append(np.ravel(np.asarray(ifftn(x.copy(), axes=axes))) * np.sqrt(x.size))
        return np.concatenate(outs)
    if name == "interpolate3d":
        from abtem.core.fft import fft_interpolate

        r = rng("c38", name)
        x = (r.normal(size=(2, 4, 5, 6)) + 1j * r.normal(size=(2, 4, 5, 6))).astype(np.complex64)
        return np.concatenate([np.ravel(fft_interpolate(x.copy(), s_)) for s_ in ((6, 5, 6), (4, 9, 7), (3, 4, 4))])
    if name == "source_reused":  # a Waves object in the configured precision is downsampled / detected, then used AGAIN: same numbers on every backend
        from abtem.core.utils import get_dtype

        r = rng("c38", name)
        w = abtem.Waves((r.normal(size=(2, 12, 10)) + 1j * r.normal(size=(2, 12, 10))).astype(get_dtype(complex=True)), energy=1e5, sampling=0.2,
                        ensemble_axes_metadata=[abtem.core.axes.OrdinalAxis(values=(0, 1))])
        outs = [np.ravel(np.asarray(w.downsample(max_angle="cutoff").array)), np.ravel(np.asarray(w.intensity().array)),
                np.ravel(np.asarray(abtem.WavesDetector().detect(w).array)), np.ravel(np.asarray(w.downsample(gpts=(8, 6)).array)),
                np.ravel(np.asarray(w.diffraction_patterns(max_angle="valid").array)), np.ravel(np.asarray(w.array))]
        return np.concatenate([o.astype(np.complex128) for o in outs])
    if name == "propagator_reuse":  # one propagator object, four different same-shaped wave arrays in a row, in place and not
        from abtem.multislice import FresnelPropagator

        r = rng("c38", name)
        prop = FresnelPropagator()
        outs = []
        for i in range(4):
            w = abtem.Waves((r.normal(size=(2, 12, 10)) + 1j * r.normal(size=(2, 12, 10))).astype(np.complex64), energy=1e5, sampling=0.2,
                            ensemble_axes_metadata=[abtem.core.axes.OrdinalAxis(values=(0, 1))])
            outs.append(np.asarray(prop.propagate(w, thickness=1.5 + (i % 2), in_place=bool(i % 2)).array).copy())
        return np.stack(outs)
    if name == "stem":
        dets = [abtem.AnnularDetector(5, 40), abtem.FlexibleAnnularDetector(step_size=2.0), abtem.PixelatedDetector(max_angle="valid")]
        outs = abtem.Probe(semiangle_cutoff=22, energy=1e5).multislice(U.potential("atoms", gpts=(24, 18)), scan=abtem.GridScan(start=(0, 0), end=(2, 1.5), gpts=(2, 2)), detectors=dets, lazy=False)
        return np.concatenate([np.ravel(np.asarray(o.array, dtype=np.float64)) for o in outs])
    if name == "prism":
        S = abtem.SMatrix(potential=U.potential("atoms", gpts=(24, 18)), semiangle_cutoff=20, energy=1e5, interpolation=1, downsample=False)
        return np.asarray(S.reduce(scan=abtem.CustomScan([[1.0, 0.5], [2.2, 1.4]]), ctf=abtem.CTF(semiangle_cutoff=20, energy=1e5, C10=40.0), lazy=False).array)
    r = rng("c38", name)
    img = abtem.Images(r.normal(size=(2, 12, 10)).astype(np.float32), sampling=0.2, ensemble_axes_metadata=[abtem.core.axes.OrdinalAxis(values=(0, 1))])
    if name == "interpolate":
        return np.asarray(img.interpolate(gpts=(17, 15), method="fft").array)
    if name == "gaussian":
        return np.asarray(img.gaussian_filter(0.4, boundary="periodic").array)
    w = abtem.Waves((r.normal(size=(2, 12, 10)) + 1j * r.normal(size=(2, 12, 10))).astype(np.complex64), energy=1e5, sampling=0.2,
                    ensemble_axes_metadata=[abtem.core.axes.OrdinalAxis(values=(0, 1))])
    return np.asarray(w.diffraction_patterns(max_angle="valid").array)


_REF = {}


def run_case(c):
    import abtem

    viol, notes = [], []
    cfg = c["cfg"]
    if c["pipe"] not in _REF:
        with abtem.config.set({"fft": "numpy", "precision": "float64"}):
            _REF[c["pipe"]] = pipeline(c["pipe"])
    ref = _REF[c["pipe"]]
    try:
        with abtem.config.set(dict(cfg)):
            got = pipeline(c["pipe"])
        out = "ok"
    except Exception as e:  # noqa: BLE001
        out = "raises:" + type(e).__name__
        if cfg["fft"] == "mkl":
            return {"viol": [], "obs": out, "nt": False, "notes": ["fft='mkl' is rejected on this image (%s)" % type(e).__name__]}
        viol.append({"key": "raises/%s/%s" % (cfg["fft"], cfg["precision"]), "msg": "pipeline %s under %r raised %s: %s" % (c["pipe"], cfg, type(e).__name__, str(e)[:150])})
        return {"viol": viol, "obs": out}
    if cfg["fft"] == "mkl":
        viol.append({"key": "mkl-accepted", "msg": "fft='mkl' did not raise although mkl_fft is not installed"})
        return {"viol": viol, "obs": out}
    if got.shape != ref.shape:
        viol.append({"key": "shape/%s" % c["pipe"], "msg": "shape %r under %r, reference %r" % (got.shape, cfg, ref.shape)})
        return {"viol": viol, "obs": out}
    tol = 2e-5  # single-precision accuracy is what the statement promises, also between double-precision configurations
    e = float(np.abs(got.astype(np.complex128) - ref.astype(np.complex128)).max()) / float(np.abs(ref).max())
    if not e <= tol:
        viol.append({"key": "values/%s/%s/%s" % (c["pipe"], cfg["fft"], cfg["precision"]), "msg": "pipeline %s under %r differs from the numpy/float64 reference by %.3g (relative), tolerance %.1g" % (c["pipe"], cfg, e, tol)})
    want = {"float32": (np.float32, np.complex64), "float64": (np.float64, np.complex128)}[cfg["precision"]]
    if got.dtype not in want and c["pipe"] not in ("stem",):
        notes.append("pipeline %s returns %s under precision=%s" % (c["pipe"], got.dtype, cfg["precision"]))
    return {"viol": viol, "obs": "%s %s" % (out, got.dtype), "nt": cfg != {"fft": "numpy", "precision": "float64"}, "tr": 1, "err": e / tol, "notes": notes}
