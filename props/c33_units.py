"""C33 — unit conversions compose and invert.

Space (complete over the finite unit tables): every ordered pair and triple of units inside each category
(real space, reciprocal space, angular) x sampling/offset values, through get_conversion_factor and through
LinearAxis.convert_units of every linear axis class.  Oracle: f(a->b) f(b->c) = f(a->c), f(a->b) f(b->a) = 1,
f(a->a) = 1; the converted axis' sampling/offset scale by the same factors and convert back to the original.
"""
import itertools

import numpy as np

META = dict(
    engines=["product"],
    technique="exhaustive enumeration of all unit pairs/triples (complete finite tables) on the real conversion functions",
    text="Every ordered pair and triple of units in each category of abtem.core.units, through get_conversion_factor and "
         "LinearAxis.convert_units of all four linear axis classes, is executed and checked for composition, inversion and identity. "
         "The unit tables are finite, so the enumeration is complete for the factor function; for axes it is complete over units "
         "and bounded to six (sampling, offset) pairs spanning 1e-6 .. 1e5 in magnitude; the intermediate axis is also copied before the second conversion.",
    note="Trusted: float64 arithmetic (1e-12 relative). Only composition/inversion are decided, not the physical value of a factor "
         "(e.g. mrad->rad), which the property does not state. Cross-category reciprocal->angular conversion is outside the statement.",
)
TOL = 1e-12
VALUES = [(1.0, 0.0), (0.37, 1.5), (2.5, -2.5), (0.01, 3e-3), (1e-4, -2e-6), (1e3, 4e5)]  # offsets from tiny to huge relative to the unit


def categories():
    from abtem.core import units as U

    return {k: list(v) for k, v in U._unit_categories.items() if k in ("real_space", "reciprocal_space", "angular")}


def check(ctx):
    cats = categories()
    cases = []
    for cat, us in cats.items():
        for a, b in itertools.product(us, repeat=2):
            cases.append({"kind": "pair", "cat": cat, "a": a, "b": b})
        for a, b, c in itertools.product(us, repeat=3):
            cases.append({"kind": "triple", "cat": cat, "a": a, "b": b, "c": c})
    axes = ["LinearAxis", "RealSpaceAxis", "ReciprocalSpaceAxis", "ScanAxis"]
    for cat, us in cats.items():
        for ax in axes:
            for a, b, c in itertools.product(us, repeat=3):
                if ctx.quick and len({a, b, c}) < 2:
                    continue
                for vi in range(len(VALUES)):
                    cases.append({"kind": "axis", "cat": cat, "axis": ax, "a": a, "b": b, "c": c, "v": vi})
    ctx.workers = 4
    ctx.assumptions.append("float64 arithmetic; tolerance 1e-12 relative")
    ctx.run(cases, "run_case", rule="all ordered unit pairs and triples inside each category of abtem.core.units "
            "(complete), x 4 linear axis classes x 6 (sampling, offset) pairs; non-trivial = the units are not all identical",
            batch=200)


def _factor(to, frm):
    from abtem.core.units import get_conversion_factor

    return get_conversion_factor(to, frm)


def run_case(case):
    viol = []
    nt = len({case["a"], case["b"], case.get("c", case["a"])}) > 1
    tr = 0
    worst = 0.0

    def bad(key, msg):
        viol.append({"key": key, "msg": msg})

    def rel(x, y):
        return abs(x - y) / max(abs(y), 1e-300)

    if case["kind"] == "pair":
        a, b = case["a"], case["b"]
        fab, fba, faa = _factor(b, a), _factor(a, b), _factor(a, a)
        tr = 3
        e = rel(fab * fba, 1.0)
        worst = max(worst, e / TOL)
        if e > TOL:
            bad("factor/invert", "f(%s->%s)=%r times f(%s->%s)=%r is %r, expected 1" % (a, b, fab, b, a, fba, fab * fba))
        if rel(faa, 1.0) > TOL:
            bad("factor/identity", "f(%s->%s)=%r, expected 1" % (a, a, faa))
        obs = "%.6g" % fab
    elif case["kind"] == "triple":
        a, b, c = case["a"], case["b"], case["c"]
        fab, fbc, fac = _factor(b, a), _factor(c, b), _factor(c, a)
        tr = 3
        e = rel(fab * fbc, fac)
        worst = max(worst, e / TOL)
        if e > TOL:
            bad("factor/compose", "f(%s->%s)*f(%s->%s)=%r but f(%s->%s)=%r" % (a, b, b, c, fab * fbc, a, c, fac))
        obs = "%.6g" % fac
    else:
        from abtem.core import axes as A

        a, b, c = case["a"], case["b"], case["c"]
        s, o = VALUES[case["v"]]
        ax = getattr(A, case["axis"])(label="x", sampling=s, offset=o, units=a)
        via = ax.convert_units(b).convert_units(c)
        direct = ax.convert_units(c)
        back = ax.convert_units(b).convert_units(a)
        mid = ax.convert_units(b)
        midc = mid.copy()
        tr = 7
        if (midc.sampling, midc.offset, midc.units) != (mid.sampling, mid.offset, mid.units):
            bad("axis/copy-of-converted", "%s %s->%s: copy() of the converted axis has (sampling, offset, units) = %r, the axis itself %r" % (
                case["axis"], a, b, (midc.sampling, midc.offset, midc.units), (mid.sampling, mid.offset, mid.units)))
        if via.units != direct.units or back.units != ax.units:
            bad("axis/units-label", "units after conversion: via=%s direct=%s back=%s" % (via.units, direct.units, back.units))
        for name, x, y, key in (
            ("sampling", via.sampling, direct.sampling, "axis/compose"),
            ("offset", via.offset, direct.offset, "axis/compose"),
            ("sampling", back.sampling, s, "axis/invert"),
            ("offset", back.offset, o, "axis/invert"),
        ):
            e = abs(x - y) / max(abs(y), 1e-300) if y != 0 else abs(x)
            worst = max(worst, e / TOL)
            if e > TOL:
                bad(key, "%s %s: %s->%s->%s gives %s=%r, expected %r" % (case["axis"], key, a, b, c if key.endswith("compose") else a, name, x, y))
        if ax.sampling != s or ax.offset != o or ax.units != a:
            bad("axis/mutated-input", "convert_units changed the receiver")
        obs = "%.6g" % direct.sampling
    return {"viol": viol, "obs": obs, "nt": nt, "tr": tr, "ref": 1, "err": worst}
