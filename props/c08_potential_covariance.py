"""C08 — potentials are covariant under translations and supercell repetition.

Spaces:
 T  whole-pixel translations: atoms A0..A3 x projection {infinite, finite} x parametrization {lobato, kirkland, lobato with per-element thermal sigmas} x ALL pairs
    (sx, sy) from {0, 1, -3, N/2, N} per axis: V(atoms shifted by whole pixels) == np.roll(V) for every slice.
 S  supercells: repetitions {(2,1,1), (1,2,1), (2,2,1), (1,1,2), (2,1,2)} x both projections:
    Potential(atoms*rep, gpts*rep) == PotentialArray.tile(rep) == CrystalPotential(unit, rep), slice by slice.
 M  sub-pixel translations (infinite projection): the mean of every slice is unchanged for shifts from {0.17, 0.5, 0.93}^2 px.
"""
import itertools

import numpy as np

META = dict(
    engines=["product"],
    technique="exhaustive enumeration of atomic models x projections x parametrizations x all pixel-shift pairs x repetitions; metamorphic oracle (roll / tile)",
    text="For 4 atomic models (boundary atoms included), both projections and two parametrizations, every pair of whole-pixel shifts from a 5-value "
         "alphabet per axis is applied to the atoms and the rebuilt potential is compared slice by slice with the rolled original; 5 repetitions "
         "are compared between the supercell potential, the tiled unit potential and CrystalPotential; 9 sub-pixel shifts preserve slice means.",
    note="Bound: 16x12 / 12x12 grids, <= 3 atoms, 2 slices. Tolerance 1e-4 of max V (float32; finite projection interpolates radial tables, covariance is "
         "exact only for whole-pixel shifts, which is what is checked).",
)
RTOL = 1e-4


def check(ctx):
    q = ctx.quick
    T = []
    for a, proj, par in itertools.product(("A0", "A1", "A2", "A3"), ("infinite", "finite"), ("lobato", "kirkland")):
        if q and par == "kirkland" and a not in ("A1",):
            continue
        if q and proj == "finite" and a in ("A0", "A3"):
            continue
        T.append({"space": "T", "atoms": a, "proj": proj, "par": par, "pbc": True})
        if par == "lobato":
            T.append({"space": "T", "atoms": a, "proj": proj, "par": par, "pbc": False})
            if a in ("A1", "A2"):  # thermal sigmas set on the parametrization (blurred per element; must stay periodic)
                T.append({"space": "T", "atoms": a, "proj": proj, "par": "lobato-sigmas", "pbc": True})
    S = [{"space": "S", "atoms": a, "proj": proj, "rep": list(rep)} for a, proj, rep in itertools.product(
        ("A1", "A2") if q else ("A0", "A1", "A2", "A3"), ("infinite", "finite"), ((2, 1, 1), (1, 2, 1), (2, 2, 1), (1, 1, 2), (2, 1, 2)))]
    # the same translation and supercell spaces on grids whose x and y pixel sizes differ
    T += [dict(t, aniso=True) for t in T if t["pbc"] and (not q or t["atoms"] in ("A1", "A2"))]
    S += [dict(s_, aniso=True) for s_ in S if not q or s_["rep"] in ([2, 1, 1], [1, 2, 1], [2, 2, 1])]
    M = [{"space": "M", "atoms": a, "par": par} for a, par in itertools.product(("A0", "A1", "A2", "A3"), ("lobato", "kirkland"))]
    ctx.run(T, "run_case", rule="T: per (atoms, projection, parametrization) all 25 whole-pixel shift pairs", space="T translations")
    ctx.run(S, "run_case", rule="S: per (atoms, projection, repetition) three constructions compared", space="S supercells")
    ctx.run(M, "run_case", rule="M: 9 sub-pixel shifts", space="M sub-pixel means")


_ANISO = [False]


def gpts_for(a):
    if _ANISO[0]:  # unequal pixel sizes in x and y: 4 A / 20 and 3 A / 12 (A0: 4 A / 16 and 4 A / 12)
        return (16, 12) if a == "A0" else (20, 12)
    return (12, 12) if a == "A0" else (16, 12)


def build(atoms, gpts, proj, par="lobato", st=2.0):
    import abtem

    if par == "lobato-sigmas":
        from abtem.parametrizations import LobatoParametrization

        par = LobatoParametrization(sigmas={s_: 0.12 + 0.05 * i for i, s_ in enumerate(sorted(set(atoms.get_chemical_symbols())))})
    return abtem.Potential(atoms, gpts=gpts, projection=proj, parametrization=par, slice_thickness=st).build(lazy=False)


def run_case(c):
    import abtem
    from mc import universe as U
    from mc.compare import err

    viol, worst, tr = [], 0.0, 0
    _ANISO[0] = bool(c.get("aniso"))

    def bad(key, msg):
        if sum(1 for v in viol if v["key"] == key) < 2:
            viol.append({"key": key, "msg": "%s (%s)" % (msg, c)})

    atoms = U.atoms(c["atoms"], pbc=c.get("pbc", True))
    gp = gpts_for(c["atoms"])
    cell = np.diag(atoms.cell)
    st = 1.0 if c["atoms"] == "A0" else 2.0
    if c["space"] == "T":
        base = np.asarray(build(atoms, gp, c["proj"], c["par"], st).array)
        tr += 1
        shifts = lambda n: [0, 1, -3, n // 2, n]  # noqa: E731
        for sx, sy in itertools.product(shifts(gp[0]), shifts(gp[1])):
            a = atoms.copy()
            a.positions[:, 0] += sx * cell[0] / gp[0]
            a.positions[:, 1] += sy * cell[1] / gp[1]
            got = np.asarray(build(a, gp, c["proj"], c["par"], st).array)
            tr += 1
            want = np.roll(base, (sx, sy), axis=(-2, -1))
            e = err(got, want, RTOL, atol=1e-9)
            worst = max(worst, e)
            if not e <= 1.0:
                bad("translation/%s%s" % (c["proj"], "" if c.get("pbc", True) else "/pbc-false-atom-leaves-cell"), "shift (%d, %d) px: max|V_shifted - roll(V)| = %.3g on max %.3g" % (sx, sy, float(np.abs(got - want).max()), float(np.abs(want).max())))
        return {"viol": viol, "obs": "ok" if not viol else viol[0]["key"], "tr": tr, "ref": tr - 1, "err": worst}
    if c["space"] == "S":
        rep = tuple(c["rep"])
        unit = build(atoms, gp, c["proj"], "lobato", st)
        tiled = np.asarray(unit.tile(rep).array)
        big_gp = (gp[0] * rep[0], gp[1] * rep[1])
        big = np.asarray(build(atoms * rep, big_gp, c["proj"], "lobato", st).array)
        crystal = abtem.CrystalPotential(abtem.Potential(atoms, gpts=gp, projection=c["proj"], slice_thickness=st), rep)
        cp = np.asarray(crystal.build(lazy=False).array)
        tr += 3
        for name, x in (("supercell-vs-tile", big), ("crystal-vs-tile", cp)):
            if x.shape != tiled.shape:
                bad("supercell/shape/" + name, "shape %r vs tiled %r" % (x.shape, tiled.shape))
                continue
            e = err(x, tiled, RTOL, atol=1e-9)
            worst = max(worst, e)
            if not e <= 1.0:
                bad("supercell/%s/%s" % (name, c["proj"]), "rep %r: max|d| = %.3g on max %.3g" % (rep, float(np.abs(x - tiled).max()), float(np.abs(tiled).max())))
        # thickness bookkeeping of the tiled / crystal potentials
        if abs(sum(crystal.slice_thickness) - cell[2] * rep[2]) > 1e-9 or len(crystal.slice_thickness) != tiled.shape[0]:
            bad("supercell/thickness", "CrystalPotential slice thicknesses %r for height %r" % (crystal.slice_thickness, cell[2] * rep[2]))
        return {"viol": viol, "obs": "ok" if not viol else viol[0]["key"], "tr": tr, "ref": 2, "err": worst}
    base = np.asarray(build(atoms, gp, "infinite", c["par"], st).array)
    m0 = base.mean(axis=(-2, -1))
    tr += 1
    for fx, fy in itertools.product((0.17, 0.5, 0.93), repeat=2):
        a = atoms.copy()
        a.positions[:, 0] += fx * cell[0] / gp[0]
        a.positions[:, 1] += fy * cell[1] / gp[1]
        m1 = np.asarray(build(a, gp, "infinite", c["par"], st).array).mean(axis=(-2, -1))
        tr += 1
        e = float(np.abs(m1 - m0).max() / np.abs(m0).max()) / 1e-5
        worst = max(worst, e)
        if not e <= 1.0:
            bad("subpixel/slice-mean", "shift (%.2f, %.2f) px changes the slice means %r -> %r" % (fx, fy, m0.tolist(), m1.tolist()))
    return {"viol": viol, "obs": "ok" if not viol else viol[0]["key"], "tr": tr, "ref": tr - 1, "err": worst}
