"""C23 — apertures and partial-coherence envelopes stay within physical bounds.

Space: grids (square, odd x even, anisotropic sampling) x energies x cutoff in {2, 10, 20.5, beyond the grid, inf,
distribution of 3} x soft/hard x focal_spread in {0, 10, 80, distribution} x angular_spread in {0, 0.5, 3,
distribution} x 6 aberration sets x flip_phase; every pixel of every kernel is checked.
Oracle: aperture in [0,1]; hard: 1 for alpha <= c(1-1e-6), 0 for alpha >= c(1+1e-6); soft: 1 for alpha <= c - max
pixel/2, 0 for alpha >= c + max pixel/2; envelopes in [0,1] and 1 at alpha = 0; |CTF| <= aperture + 1e-6, with alpha
computed here from numpy.fft.fftfreq in float64.
"""
import itertools

import numpy as np

META = dict(
    engines=["product"],
    technique="exhaustive enumeration of grids x aperture/envelope/aberration parameter alphabets; every pixel of every kernel checked against the bounds",
    text="The full product of 4 grids, 1-2 energies, 6 cutoff kinds, soft/hard, 4 focal spreads, 4 angular spreads, 6 aberration sets and "
         "flip_phase is evaluated through Aperture, TemporalEnvelope, SpatialEnvelope and CTF kernels (scalar and distribution-valued "
         "parameters, each ensemble member separately); every pixel is compared with the bounds using scattering angles computed independently.",
    note="Bound: the parameter alphabet and grids <= 24 pixels. wiener_snr != 0 is a filter, not a transmission, and excluded. Spreads are "
         "non-negative as the statement requires.",
)
GRIDS = [
    {"gpts": [16, 16], "sampling": [0.25, 0.25]},
    {"gpts": [15, 12], "sampling": [0.25, 0.25]},
    {"gpts": [16, 12], "sampling": [0.2, 0.35]},
    {"gpts": [24, 9], "sampling": [0.15, 0.4]},
    {"gpts": [48, 144], "sampling": [0.25, 0.25]},  # extent 12 x 36 A: angular pixel 3.1 x 1.0 mrad at 100 keV
]
CUTOFFS = [2.0, 10.0, 20.5, 60.0, 85.0, 500.0, "inf", "dist"]  # 60 and 85 mrad lie between the axis Nyquist angle and the corner angle of some grids
FOCAL = [0.0, 10.0, 80.0, "dist", "wdist", "gdist"]  # dist: unit weights; wdist: weights (2, 1); gdist: Gaussian weights < 1
ANGULAR = [0.0, 0.5, 3.0, "dist", "wdist", "gdist"]
ABERR = [
    {},
    {"C10": 150.0},
    {"C30": 2e5, "C12": 30.0, "phi12": 0.4},
    {"C21": 800.0, "phi21": -1.0, "C23": 500.0, "phi23": 0.3},
    {"C10": -80.0, "C30": -1e5, "C50": 3e7, "C34": 4e4, "phi34": 0.2},
    {"C10": "dist"},
]


def check(ctx):
    energies = [100e3] if ctx.quick else [60e3, 300e3]
    cases = []
    for gi, e in itertools.product(range(len(GRIDS)), energies):
        for c, soft in itertools.product(range(len(CUTOFFS)), (True, False)):
            cases.append({"kind": "aperture", "grid": gi, "energy": e, "cutoff": c, "soft": soft})
        for f in range(len(FOCAL)):
            cases.append({"kind": "temporal", "grid": gi, "energy": e, "focal": f})
        for a, ab in itertools.product(range(len(ANGULAR)), range(len(ABERR))):
            cases.append({"kind": "spatial", "grid": gi, "energy": e, "angular": a, "aberr": ab})
        grids_ctf = True
        for c, soft, f, a, ab, flip in itertools.product(range(len(CUTOFFS)), (True, False), range(len(FOCAL)), range(len(ANGULAR)),
                                                          range(len(ABERR)), (False, True)):
            if ctx.quick and (flip and (f + a + ab) % 3 != 0):
                continue  # quick: flip_phase only on a third of the combinations (it is a pointwise post-processing)
            cases.append({"kind": "ctf", "grid": gi, "energy": e, "cutoff": c, "soft": soft, "focal": f, "angular": a, "aberr": ab, "flip": flip})
    ctx.run(cases, "run_case", rule="one case per parameter combination, all pixels (and all ensemble members) checked; non-trivial = the "
            "kernel is not identically 1")


def dist(kind):
    import abtem

    if kind == "cutoff":
        return abtem.distributions.from_values([8.0, 14.5, 30.0])
    import numpy as _np

    if kind == "focal":
        return abtem.distributions.from_values([5.0, 40.0])
    if kind == "angular":
        return abtem.distributions.from_values([0.3, 2.0])
    if kind == "focal-w":
        return abtem.distributions.from_values([5.0, 40.0], weights=_np.array([2.0, 1.0]))
    if kind == "angular-w":
        return abtem.distributions.from_values([0.3, 2.0], weights=_np.array([2.0, 1.0]))
    if kind == "focal-g":
        return abtem.distributions.gaussian(10.0, 3, center=40.0)
    if kind == "angular-g":
        return abtem.distributions.gaussian(0.4, 3, center=1.5)
    return abtem.distributions.gaussian(30.0, 3, center=100.0, ensemble_mean=False)


def alpha_grid(g, energy):
    from mc.ref.chi import wavelength

    lam = wavelength(energy)
    kx = np.fft.fftfreq(g["gpts"][0], g["sampling"][0])
    ky = np.fft.fftfreq(g["gpts"][1], g["sampling"][1])
    alpha = np.sqrt(kx[:, None] ** 2 + ky[None] ** 2) * lam
    pix = max(lam / (g["gpts"][0] * g["sampling"][0]), lam / (g["gpts"][1] * g["sampling"][1]))
    alpha_grid.axis_pix = (lam / (g["gpts"][0] * g["sampling"][0]), lam / (g["gpts"][1] * g["sampling"][1]))
    return alpha, pix


def aperture_bounds(k, alpha, pix, c_mrad, soft, axis_pix=None):
    """returns list of (key, msg)"""
    out = []
    k = np.asarray(k)
    if k.min() < 0 or k.max() > 1 or not np.isfinite(k).all():
        out.append(("aperture/range", "aperture values outside [0,1]: min %r max %r" % (float(k.min()), float(k.max()))))
    if c_mrad == np.inf:
        if not np.all(k == 1):
            out.append(("aperture/inf", "infinite cutoff must transmit everything"))
        return out
    c = c_mrad * 1e-3
    if soft:
        inside, outside = alpha <= c - 0.5 * pix * (1 + 1e-5), alpha >= c + 0.5 * pix * (1 + 1e-5)
    else:
        inside, outside = alpha <= c * (1 - 1e-6), alpha >= c * (1 + 1e-6)
    if soft and k.ndim == 2 and axis_pix is not None:
        # ON the k_x axis (k_y = 0) "a pixel" is unambiguously the x pixel, on the k_y axis the y pixel: the bound must hold there with the
        # axis's OWN pixel size (on an anisotropic grid this is sharper than the coarse-pixel bound above for the finely sampled axis)
        for name, line_k, line_a, p in (("kx", k[:, 0], alpha[:, 0], axis_pix[0]), ("ky", k[0, :], alpha[0, :], axis_pix[1])):
            ins, outs = line_a <= c - 0.5 * p * (1 + 1e-5), line_a >= c + 0.5 * p * (1 + 1e-5)
            if ins.any() and not np.all(line_k[ins] == 1):
                out.append(("aperture/soft-inside/on-axis", "cutoff %r mrad: transmission %r at alpha=%r mrad on the %s axis, more than half a %s pixel (%.4g mrad) inside" % (
                    c_mrad, float(line_k[ins].min()), float(line_a[ins][np.argmin(line_k[ins])] * 1e3), name, name, p * 1e3)))
            if outs.any() and not np.all(line_k[outs] == 0):
                out.append(("aperture/soft-outside/on-axis", "cutoff %r mrad: transmission %r at alpha=%r mrad on the %s axis, more than half a %s pixel (%.4g mrad) outside" % (
                    c_mrad, float(line_k[outs].max()), float(line_a[outs][np.argmax(line_k[outs])] * 1e3), name, name, p * 1e3)))
    if inside.any() and not np.all(k[inside] == 1):
        out.append(("aperture/%s-inside" % ("soft" if soft else "hard"), "cutoff %r mrad: transmission %r at alpha=%r mrad inside the aperture" % (
            c_mrad, float(k[inside].min()), float(alpha[inside][np.argmin(k[inside])] * 1e3))))
    if outside.any() and not np.all(k[outside] == 0):
        out.append(("aperture/%s-outside" % ("soft" if soft else "hard"), "cutoff %r mrad: transmission %r at alpha=%r mrad outside the aperture" % (
            c_mrad, float(k[outside].max()), float(alpha[outside][np.argmax(k[outside])] * 1e3))))
    return out


def run_case(case):
    import abtem
    from abtem.transfer import CTF, Aperture, SpatialEnvelope, TemporalEnvelope

    g = GRIDS[case["grid"]]
    e = case["energy"]
    gk = dict(gpts=tuple(g["gpts"]), sampling=tuple(g["sampling"]), energy=e)
    alpha, pix = alpha_grid(g, e)
    viol = []

    def bad(key, msg):
        if sum(1 for v in viol if v["key"] == key) < 2:
            viol.append({"key": key, "msg": "%s (%s)" % (msg, case)})

    def cutoff_value(i):
        c = CUTOFFS[i]
        return np.inf if c == "inf" else (dist("cutoff") if c == "dist" else c)

    def members(obj, arr):
        """yield (index tuple, {label: value}, member array) over the ensemble axes"""
        axes = obj.ensemble_axes_metadata
        eshape = arr.shape[: arr.ndim - 2]
        if len(axes) != len(eshape):
            bad("ensemble/axes-count", "%d ensemble axes metadata for kernel shape %r" % (len(axes), arr.shape))
            return
        for idx in itertools.product(*[range(n) for n in eshape]):
            vals = {}
            for ax, i in zip(axes, idx):
                if len(ax.values) != arr.shape[axes.index(ax)]:
                    bad("ensemble/axes-length", "axis %s has %d values for %d members" % (ax.label, len(ax.values), arr.shape[axes.index(ax)]))
                    return
                vals[ax.label] = ax.values[i]
            yield idx, vals, arr[idx]

    nt = True
    if case["kind"] == "aperture":
        c = cutoff_value(case["cutoff"])
        ap = Aperture(c, soft=case["soft"], **gk)
        k = np.asarray(ap._evaluate_kernel())
        for idx, vals, m in members(ap, k):
            cv = vals.get("semiangle_cutoff", c)
            for key, msg in aperture_bounds(m, alpha, pix, float(cv), case["soft"], axis_pix=alpha_grid.axis_pix):
                bad(key, msg)
        nt = CUTOFFS[case["cutoff"]] != "inf"
        obs = "%.4g" % float(k.mean())
    elif case["kind"] == "temporal":
        f = FOCAL[case["focal"]]
        env = TemporalEnvelope(({"dist": dist("focal"), "wdist": dist("focal-w"), "gdist": dist("focal-g")}[f] if isinstance(f, str) else f), **gk)
        k = np.asarray(env._evaluate_kernel())
        if k.min() < 0 or k.max() > 1 + 1e-6 or not np.isfinite(k).all():
            bad("temporal/range", "temporal envelope outside [0,1]: %r %r" % (float(k.min()), float(k.max())))
        if not np.allclose(k[..., 0, 0], 1.0, atol=1e-6):
            bad("temporal/origin", "temporal envelope at alpha=0 is %r" % (k[..., 0, 0],))
        nt = f != 0.0
        obs = "%.4g" % float(k.mean())
    elif case["kind"] == "spatial":
        a = ANGULAR[case["angular"]]
        ab = {s: (dist("C10") if v == "dist" else v) for s, v in ABERR[case["aberr"]].items()}
        env = SpatialEnvelope(({"dist": dist("angular"), "wdist": dist("angular-w"), "gdist": dist("angular-g")}[a] if isinstance(a, str) else a), aberration_coefficients=ab, **gk)
        k = np.asarray(env._evaluate_kernel())
        if k.min() < 0 or k.max() > 1 + 1e-6 or not np.isfinite(k).all():
            bad("spatial/range", "spatial envelope outside [0,1]: %r %r" % (float(k.min()), float(k.max())))
        if not np.allclose(k[..., 0, 0], 1.0, atol=1e-6):
            bad("spatial/origin", "spatial envelope at alpha=0 is %r" % (k[..., 0, 0],))
        nt = a != 0.0 and bool(ab)
        obs = "%.4g" % float(k.mean())
    else:
        c = cutoff_value(case["cutoff"])
        f = FOCAL[case["focal"]]
        a = ANGULAR[case["angular"]]
        ab = {s: (dist("C10") if v == "dist" else v) for s, v in ABERR[case["aberr"]].items()}
        ctf = CTF(semiangle_cutoff=c, soft=case["soft"], focal_spread=({"dist": dist("focal"), "wdist": dist("focal-w"), "gdist": dist("focal-g")}[f] if isinstance(f, str) else f),
                  angular_spread=({"dist": dist("angular"), "wdist": dist("angular-w"), "gdist": dist("angular-g")}[a] if isinstance(a, str) else a), aberration_coefficients=ab, flip_phase=case["flip"], **gk)
        k = np.asarray(ctf._evaluate_kernel())
        if not np.isfinite(k).all():
            bad("ctf/nan", "CTF kernel has non-finite values")
        for idx, vals, m in members(ctf, k):
            cv = float(vals.get("semiangle_cutoff", c))
            if cv == np.inf:
                apk = np.ones(alpha.shape)
            else:
                apk = np.asarray(Aperture(cv, soft=case["soft"], **gk)._evaluate_kernel())
            excess = np.abs(m) - apk
            if excess.max() > 1e-6:
                i = np.unravel_index(np.argmax(excess), excess.shape)
                bad("ctf/exceeds-aperture", "|CTF|=%r > aperture=%r at alpha=%.3f mrad (member %r)" % (
                    float(np.abs(m[i])), float(apk[i]), alpha[i] * 1e3, vals))
        obs = "%.4g" % float(np.abs(k).mean())
    return {"viol": viol, "obs": obs, "nt": nt, "tr": 1, "ref": int(np.prod(np.asarray(k).shape))}
