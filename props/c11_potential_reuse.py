"""C11 — a potential reused after changing its grid behaves like a fresh one.

Explicit enumeration of ALL operation histories of length <= depth on a real Potential object (states are histories: the
hidden caches inside the object are exactly what is being studied, so histories are never merged).  Operations:
gpts <- one of 3 values, sampling <- one of 2 values, build (eager), build (lazy), use in an eager multislice.
Invariant at every observing operation: the built array / exit wave == that of a freshly constructed Potential with the
same arguments and the current grid.  An exception where the fresh object succeeds is a violation.
"""
import itertools

import numpy as np

META = dict(
    engines=["bfs"],
    technique="exhaustive enumeration of all edit/build histories (depth-bounded) on the real Potential object; differential oracle against a fresh object",
    text="All 8^3 (quick) / 8^4 (thorough) histories of {3 gpts edits, 2 sampling edits, eager build, lazy build, multislice} on a Potential, for "
         "infinite and finite projection and two atomic models, are replayed on a fresh real object; after every build or multislice in every "
         "history the result is compared with a newly constructed potential on the current grid.",
    note="Bound: history length 3/4, the edit alphabet, 2 atomic models. Tolerance 1e-6 of max V (same arithmetic on both sides).",
)
RTOL = 1e-6
EVENTS = [["gpts", [16, 12]], ["gpts", [20, 16]], ["gpts", [12, 12]], ["sampling", 0.2], ["sampling", 0.31], ["build", None], ["build_lazy", None],
          ["multislice", None], ["getitem", None], ["project", None], ["slices", None]]


def check(ctx):
    depth = 3 if ctx.quick else 4
    cases = []
    for proj, atoms in itertools.product(("infinite", "finite"), ("A1", "A3")):
        for first in range(len(EVENTS)):
            for second in range(len(EVENTS)):
                cases.append({"proj": proj, "atoms": atoms, "prefix": [first, second], "depth": depth})
    res = ctx.run(cases, "explore", batch=2, rule="all histories of length <= %d over %d operations, partitioned by their first two operations; "
                  "state = history (never merged); non-trivial = the history contains a grid edit between two observations" % (depth, len(EVENTS)))
    ctx.extra["history_depth"] = depth
    ctx.extra["observations_compared"] = sum(r.get("ref", 0) for r in res)


_FRESH = {}


def fresh_arrays(proj, atoms, gpts):
    import abtem
    from mc import universe as U

    key = (proj, atoms, tuple(gpts))
    if key not in _FRESH:
        pot = abtem.Potential(U.atoms(atoms), gpts=tuple(gpts), projection=proj, slice_thickness=2.0)
        built = np.asarray(pot.build(lazy=False).array).copy()
        pot2 = abtem.Potential(U.atoms(atoms), gpts=tuple(gpts), projection=proj, slice_thickness=2.0)
        wave = np.asarray(abtem.PlaneWave(energy=100e3).multislice(pot2, lazy=False).array).copy()
        _FRESH[key] = (built, wave)
    return _FRESH[key]


def replay(proj, atoms, hist, upto=None):
    """Apply the history to a fresh real Potential; returns list of (step, key, msg) violations and #observations."""
    import abtem
    from mc import universe as U
    from mc.compare import err

    pot = abtem.Potential(U.atoms(atoms), gpts=(16, 12), projection=proj, slice_thickness=2.0)
    viol, nobs, edited_since_obs, observed, nontrivial = [], 0, False, False, False
    for step, ei in enumerate(hist):
        name, val = EVENTS[ei]
        try:
            if name == "gpts":
                pot.gpts = tuple(val)
                edited_since_obs = True
                continue
            if name == "sampling":
                pot.sampling = val
                edited_since_obs = True
                continue
            if observed and edited_since_obs:
                nontrivial = True
            observed, edited_since_obs = True, False
            nobs += 1
            ref_built, ref_wave = fresh_arrays(proj, atoms, pot.gpts)
            if name == "build":
                got, ref = np.asarray(pot.build(lazy=False).array), ref_built
            elif name == "build_lazy":
                got, ref = np.asarray(pot.build(lazy=True).compute().array), ref_built
            elif name == "getitem":  # the indexing route: potential[i] builds and returns slice i
                got, ref = np.asarray(pot[1].array), ref_built[1:2]
            elif name == "project":
                got, ref = np.asarray(pot.project().array), ref_built.sum(axis=0)
            elif name == "slices":
                got, ref = np.concatenate([np.asarray(sl.array) for sl in pot.generate_slices()]), ref_built
            else:
                got, ref = np.asarray(abtem.PlaneWave(energy=100e3).multislice(pot, lazy=False).array), ref_wave
            if got.shape != ref.shape:
                viol.append((step, "stale/%s/shape" % proj, "%s after %r: shape %r, fresh potential gives %r" % (name, [EVENTS[i] for i in hist[:step]], got.shape, ref.shape)))
                continue
            e = err(got, ref, RTOL, atol=1e-12)
            if not e <= 1.0:
                viol.append((step, "stale/%s/values" % proj, "%s after %r: max|d| = %.3g on max %.3g" % (
                    name, [EVENTS[i] for i in hist[:step]], float(np.abs(got - ref).max()), float(np.abs(ref).max()))))
        except Exception as e:  # noqa: BLE001
            viol.append((step, "stale/%s/raises-%s" % (proj, type(e).__name__), "%s after %r raised %s: %s" % (
                name, [EVENTS[i] for i in hist[:step]], type(e).__name__, str(e)[:150])))
            break
    return viol, nobs, nontrivial


def explore(case):
    proj, atoms, depth = case["proj"], case["atoms"], case["depth"]
    pre = case["prefix"]
    viol, states, tr, refs, nt = [], set(), 0, 0, 0
    seen_keys = {}
    for tail in itertools.product(range(len(EVENTS)), repeat=depth - len(pre)):
        hist = tuple(pre) + tail
        v, nobs, nontrivial = replay(proj, atoms, hist)
        tr += len(hist)
        refs += nobs
        nt += bool(nontrivial)
        for k in range(1, len(hist) + 1):
            states.add(hist[:k])
        for step, key, msg in v:
            seen_keys[key] = seen_keys.get(key, 0) + 1
            if seen_keys[key] <= 2:
                viol.append({"key": key, "msg": msg, "case": {"proj": proj, "atoms": atoms, "history": list(hist[: step + 1])}, "func": "replay_history"})
    return {"viol": viol, "obs": "%s/%s %s" % (proj, atoms, sorted(seen_keys)), "nt": nt > 0, "tr": tr, "st": len(states), "ref": refs,
            "notes": ["violating observations %s x%d" % kv for kv in seen_keys.items()]}


def replay_history(case):
    v, nobs, _ = replay(case["proj"], case["atoms"], tuple(case["history"]))
    return {"viol": [{"key": key, "msg": msg} for _, key, msg in v], "obs": "%d observations" % nobs}
