"""C12 — detectors measure consistent integrated intensities.

Space: waves (seeded complex arrays) on grids {(32,32), (36,30), (33,31)} x energies x ensembles {single, 3 positions,
2x2 scan} x ALL (inner, outer) pairs from {0, 3, 7.5, 10, 21.3, 40, max} with inner < outer x step in {1, 0.5, 2.5, and the non-dyadic 0.2, 0.1, 0.3, 0.7 with inner offsets 0 and 10} x
segments (nr, na) in {(1,1), (2,4), (3,1)}.
Oracle: AnnularDetector == DiffractionPatterns('full').integrate_radial == explicit per-pixel sum over fftfreq
coordinates; sum of SegmentedDetector segments == AnnularDetector; A(a,b) + A(b,c) == A(a,c); FlexibleAnnularDetector
-> integrate_radial(i, o) == AnnularDetector(i, o) for i, o on the bin edges its axis metadata states (a pick of pairs against the
annular detector, EVERY edge as lower / upper limit and every single bin against sums of the bins); every flexible
bin k == AnnularDetector(offset + k w, offset + (k+1) w) with w the METADATA sampling.
"""
import itertools

import numpy as np

META = dict(
    engines=["product", "bfs"],
    technique="exhaustive enumeration of grids x ensembles x all limit pairs x step sizes x segmentations; differential oracle between four detector paths and a per-pixel reference",
    text="On 3 grids, 1-2 energies and 3 ensemble shapes, every ordered pair of limits from a 7-value alphabet (integer, fractional, maximal), 3 step "
         "sizes and 3 segmentations are measured with AnnularDetector, DiffractionPatterns.integrate_radial, FlexibleAnnularDetector + "
         "integrate_radial, SegmentedDetector and an explicit per-pixel sum, and compared; additivity over adjacent ranges and the width of every "
         "flexible bin (against the axis metadata) are checked. A breadth-first search over all sequences (depth 2 / 3) of 5 wave variants on ONE detector object (9 detector configurations) requires the last measurement to equal a fresh detector's.",
    note="Bound: grids <= 36 pixels, the limit alphabet. float32 sums: tolerance 2e-5 of the total intensity. Limits are chosen off the discrete "
         "pixel radii where they are fractional; integer limits may coincide with pixel radii, which is part of the test.",
)
GRIDS = [((32, 32), (7.3, 7.3)), ((36, 30), (8.1, 6.9)), ((33, 31), (7.7, 7.1))]
LIMITS = [0.0, 3.0, 7.5, 10.0, 21.3, 40.0, "max"]
RTOL = 2e-5


def check(ctx):
    q = ctx.quick
    cases = []
    for g, e, ens in itertools.product(range(len(GRIDS)), [100e3] if q else [100e3, 300e3], ("single", "pos3", "scan22")):
        cases.append({"kind": "annular", "g": g, "e": e, "ens": ens})
        for step in (1.0, 0.5, 2.5):
            for io in ((0.0, None), (3.0, 40.0), (7.5, 33.0), (0.0, 21.3)):
                cases.append({"kind": "flex", "g": g, "e": e, "ens": ens, "step": step, "inner": io[0], "outer": io[1]})
        # non-dyadic steps: (limit - offset) / step is not exactly representable, so an index computed by truncation loses bins
        for step in (0.2, 0.1, 0.3, 0.7):
            for io in ((0.0, None), (10.0, 30.9)):
                if q and ens != "pos3" and (step, io[0]) not in ((0.2, 0.0), (0.1, 10.0)):
                    continue
                cases.append({"kind": "flex", "g": g, "e": e, "ens": ens, "step": step, "inner": io[0], "outer": io[1]})
        for nr, na in ((1, 1), (2, 4), (3, 1)):
            for io in ((0.0, 40.0), (7.5, 21.3), (3.0, 10.0)):
                cases.append({"kind": "seg", "g": g, "e": e, "ens": ens, "nr": nr, "na": na, "inner": io[0], "outer": io[1]})
    # histories: ONE detector object is used on a sequence of waves with different angular ranges (3 grids, 2 energies); what it measures on
    # the last waves must be what a fresh detector measures there, hence still consistent with the AnnularDetector of the same limits
    for det in range(len(REUSE_DETECTORS)):
        for first in range(len(REUSE_WAVES)):
            cases.append({"kind": "reuse", "det": det, "first": first, "depth": 2 if q else 3})
    ctx.run(cases, "run_case", rule="reuse: BFS over all sequences of 5 wave variants on one detector object, depth 2 / 3, per detector kind | annular: all limit pairs inside; flex: all bins and all edge-aligned pairs inside; seg: per segmentation; "
            "non-trivial = all")


def make_waves(c):
    import abtem
    from abtem.core.axes import PositionsAxis, ScanAxis
    from mc.compare import rng

    gpts, ext = GRIDS[c["g"]]
    eshape = {"single": (), "pos3": (3,), "scan22": (2, 2)}[c["ens"]]
    r = rng("c12", c["g"], c["ens"])
    arr = (r.normal(size=eshape + gpts) + 1j * r.normal(size=eshape + gpts)).astype(np.complex64)
    # band-limit softly so that the intensity is not uniform in angle
    kx = np.fft.fftfreq(gpts[0], ext[0] / gpts[0])[:, None]
    ky = np.fft.fftfreq(gpts[1], ext[1] / gpts[1])[None]
    arr = np.fft.ifft2(np.fft.fft2(arr) * np.exp(-(kx ** 2 + ky ** 2) / 1.5)).astype(np.complex64)
    axes = {"single": [], "pos3": [PositionsAxis(values=((0.0, 0.0), (1.0, 1.0), (2.0, 0.5)))],
            "scan22": [ScanAxis(label="x", sampling=0.5, units="Å"), ScanAxis(label="y", sampling=0.5, units="Å")]}[c["ens"]]
    return abtem.Waves(arr, energy=c["e"], extent=ext, ensemble_axes_metadata=axes)


def alpha_mrad(c):
    from mc.ref.chi import wavelength

    gpts, ext = GRIDS[c["g"]]
    lam = wavelength(c["e"])
    kx = np.fft.fftfreq(gpts[0], ext[0] / gpts[0])[:, None]
    ky = np.fft.fftfreq(gpts[1], ext[1] / gpts[1])[None]
    return np.sqrt(kx ** 2 + ky ** 2) * lam * 1e3


def arr_of(x):
    return np.asarray(x.array if hasattr(x, "array") else x, dtype=np.float64)


REUSE_WAVES = [(0, 100e3), (1, 100e3), (2, 100e3), (0, 300e3), ("wide", 100e3)]  # (grid index or 'wide' = 32x32 on 3.1 A: twice the angular range, energy)
REUSE_DETECTORS = [("flex", dict(step_size=2.5)), ("flex", dict(step_size=1.0, inner=3.0)), ("flex", dict(step_size=2.0, outer=30.0)), ("annular", dict(inner=5.0)),
                   ("annular", dict(inner=5.0, outer=30.0)), ("seg", dict(nbins_radial=2, nbins_azimuthal=4, inner=5.0, outer=25.0)), ("pix", dict(max_angle="valid")),
                   ("pix", dict(max_angle="cutoff")), ("pix", dict(max_angle=None))]


def _reuse_waves(i):
    g, e = REUSE_WAVES[i]
    if g == "wide":
        import abtem
        from mc.compare import rng

        r = rng("c12wide")
        arr = (r.normal(size=(32, 32)) + 1j * r.normal(size=(32, 32))).astype(np.complex64)
        return abtem.Waves(arr, energy=e, extent=(3.1, 3.1))
    return make_waves({"g": g, "e": e, "ens": "single"})


def _reuse_detector(i):
    import abtem

    kind, kw = REUSE_DETECTORS[i]
    return {"flex": abtem.FlexibleAnnularDetector, "annular": abtem.AnnularDetector, "seg": abtem.SegmentedDetector, "pix": abtem.PixelatedDetector}[kind](**kw)


def run_reuse(c):
    from mc.bfs import bfs

    fresh_cache = {}

    def observe(det, i):
        try:
            m = det.detect(_reuse_waves(i))
            return (np.asarray(m.array), tuple(repr(a.__dict__) for a in m.axes_metadata))
        except Exception as e:  # noqa: BLE001
            return "raises:" + type(e).__name__

    def fresh_result(i):
        if i not in fresh_cache:
            fresh_cache[i] = observe(_reuse_detector(c["det"]), i)
        return fresh_cache[i]

    def fresh():
        return {"d": _reuse_detector(c["det"]), "hist": []}

    def apply(s, ev):
        s["last"] = observe(s["d"], ev)
        s["hist"].append(ev)
        return "ok" if not isinstance(s["last"], str) else s["last"]

    def enabled(s):
        return list(range(len(REUSE_WAVES))) if s["hist"] else [c["first"]]

    def canon(s):  # what a detector remembers from earlier waves is hidden state: histories are never merged
        return tuple(s["hist"])

    def check(s, hist, ev, info, pre):
        want, got = fresh_result(ev), s["last"]
        if isinstance(want, str) or isinstance(got, str):
            if want != got if isinstance(want, str) and isinstance(got, str) else True:
                return [("reuse/outcome", "detector %r after waves %r: %s on waves %r, a fresh detector: %s" % (REUSE_DETECTORS[c["det"]], list(hist), got if isinstance(got, str) else "ok", REUSE_WAVES[ev], want if isinstance(want, str) else "ok"))]
            return []
        if got[0].shape != want[0].shape:
            return [("reuse/shape", "detector %r used on waves %r before: measurement of waves %r has shape %r, a fresh detector gives %r" % (
                REUSE_DETECTORS[c["det"]], [REUSE_WAVES[h] for h in hist], REUSE_WAVES[ev], got[0].shape, want[0].shape))]
        out = []
        if not np.allclose(got[0], want[0], rtol=1e-6, atol=1e-6 * float(np.abs(want[0]).max())):
            out.append(("reuse/values", "detector %r used on waves %r before: measurement of waves %r differs from a fresh detector's by %.3g" % (
                REUSE_DETECTORS[c["det"]], [REUSE_WAVES[h] for h in hist], REUSE_WAVES[ev], float(np.abs(got[0] - want[0]).max()))))
        if got[1] != want[1]:
            out.append(("reuse/axes", "detector %r used on waves %r before: axes metadata of the measurement of waves %r differ from a fresh detector's" % (
                REUSE_DETECTORS[c["det"]], [REUSE_WAVES[h] for h in hist], REUSE_WAVES[ev])))
        return out

    res = bfs(fresh, apply, enabled, canon, check, c["depth"])
    viol, seen = [], set()
    for key, msg, hist in res["violations"]:
        if key not in seen:
            seen.add(key)
            viol.append({"key": key, "msg": "%s (%s)" % (msg, c)})
    return {"viol": viol, "obs": "%d histories %s" % (len(res["states"]), sorted(res["infos"].items())), "st": len(res["states"]), "tr": res["transitions"], "ref": res["transitions"]}


def run_case(c):
    if c["kind"] == "reuse":
        return run_reuse(c)
    import abtem
    from mc.compare import err

    viol, worst, tr = [], 0.0, 0

    def bad(key, msg):
        if sum(1 for v in viol if v["key"] == key) < 2:
            viol.append({"key": key, "msg": "%s (%s)" % (msg, c)})

    w = make_waves(c)
    alpha = alpha_mrad(c)
    inten = np.abs(np.fft.fft2(np.asarray(w.array).astype(np.complex128))) ** 2
    # abTEM's intensity normalisation is a convention (it depends on the waves' normalisation metadata): take ONE constant from
    # the full, uncropped pattern and require it to be the same for every ensemble member
    full_sum = arr_of(w.diffraction_patterns(max_angle="full", parity="same")).sum(axis=(-2, -1))
    scale = np.ravel(full_sum / inten.sum(axis=(-2, -1)))
    if np.abs(scale / scale[0] - 1).max() > 1e-5:
        bad("normalisation-not-constant", "diffraction intensity / |FFT|^2 differs between ensemble members: %r" % scale.tolist())
    inten = inten * scale[0]
    total = float(inten.sum(axis=(-2, -1)).max())
    amax = float(np.floor(min(w.cutoff_angles)))

    def close(a, b, key, msg):
        nonlocal worst
        a, b = np.asarray(a, float), np.asarray(b, float)
        if a.shape != b.shape:
            bad(key, "%s: shape %r vs %r" % (msg, a.shape, b.shape))
            return
        e = float(np.abs(a - b).max()) / (RTOL * total)
        worst = max(worst, e)
        if not e <= 1.0:
            bad(key, "%s: max|d| = %.3g (total intensity %.3g); e.g. %r vs %r" % (msg, float(np.abs(a - b).max()), total, np.ravel(a)[:2].tolist(), np.ravel(b)[:2].tolist()))

    def annular(i, o):
        nonlocal tr
        tr += 1
        return arr_of(abtem.AnnularDetector(i, o).detect(w))

    if c["kind"] == "annular":
        lims = [amax if x == "max" else x for x in LIMITS]
        lims = sorted(set(x for x in lims if x <= amax))
        dp = w.diffraction_patterns(max_angle="full", parity="same")
        vals = {}
        for i, o in itertools.combinations(lims, 2):
            a = annular(i, o)
            vals[(i, o)] = a
            b = arr_of(dp.integrate_radial(i, o))
            tr += 1
            close(a, b, "annular/vs-integrate_radial", "AnnularDetector(%r, %r) vs diffraction_patterns('full').integrate_radial" % (i, o))
            mask = (alpha >= i) & (alpha < o)
            ref = (inten * mask).sum(axis=(-2, -1))
            mask2 = (alpha > i) & (alpha <= o)
            ref2 = (inten * mask2).sum(axis=(-2, -1))
            e1 = float(np.abs(a - ref).max())
            e2 = float(np.abs(a - ref2).max())
            if min(e1, e2) > RTOL * total:
                bad("annular/vs-per-pixel-sum", "AnnularDetector(%r, %r) = %r, per-pixel sum over inner <= alpha < outer = %r" % (i, o, np.ravel(a)[:2].tolist(), np.ravel(ref)[:2].tolist()))
        for a_, b_, c_ in itertools.combinations(lims, 3):
            close(vals[(a_, b_)] + vals[(b_, c_)], vals[(a_, c_)], "annular/additivity", "A(%r,%r) + A(%r,%r) vs A(%r,%r)" % (a_, b_, b_, c_, a_, c_))
        return {"viol": viol, "obs": "%d pairs" % len(vals), "tr": tr, "ref": 3 * len(vals), "err": worst}
    if c["kind"] == "flex":
        det = abtem.FlexibleAnnularDetector(step_size=c["step"], inner=c["inner"], outer=c["outer"])
        pm = det.detect(w)
        tr += 1
        radial = pm.base_axes_metadata[0]
        off, sw = float(radial.offset), float(radial.sampling)
        n = pm.shape[-2]
        parr = arr_of(pm)
        if abs(sw - c["step"]) > 1e-9:
            bad("flex/metadata-step", "axis metadata sampling %r, step_size %r" % (sw, c["step"]))
        # every bin against the annular detector over the range the metadata states
        for k in range(n):
            lo, hi = off + k * sw, off + (k + 1) * sw
            if hi > amax:
                break
            close(parr[..., k, 0], annular(lo, hi), "flex/bin-width", "flexible bin %d, stated range [%.4g, %.4g) mrad, vs AnnularDetector" % (k, lo, hi))
        # edge-aligned limit pairs through integrate_radial
        edges = [off + k * sw for k in range(n + 1) if off + k * sw <= amax]
        picks = sorted(set([0, 1, len(edges) // 3, len(edges) // 2, len(edges) - 1]))
        for i, j in itertools.combinations(picks, 2):
            got = arr_of(pm.integrate_radial(edges[i], edges[j]))
            tr += 1
            close(got, annular(edges[i], edges[j]), "flex/integrate-vs-annular", "FlexibleAnnularDetector -> integrate_radial(%.4g, %.4g) vs AnnularDetector" % (edges[i], edges[j]))
        # EVERY edge-aligned limit: [first edge, e_j), [e_j, last edge) and the single bin [e_j, e_j+1) against sums of the bins themselves
        # (the bins were compared with AnnularDetector one by one above)
        ne = len(edges)
        cum = np.concatenate([np.zeros(parr.shape[:-2] + (1,)), np.cumsum(parr[..., : ne - 1, 0], axis=-1)], axis=-1)
        for j in range(1, ne):
            got = arr_of(pm.integrate_radial(edges[0], edges[j]))
            close(got, cum[..., j], "flex/integrate-vs-bins", "integrate_radial(%.6g, %.6g) vs the sum of bins 0..%d" % (edges[0], edges[j], j - 1))
            if j < ne - 1:
                got = arr_of(pm.integrate_radial(edges[j], edges[-1]))
                close(got, cum[..., ne - 1] - cum[..., j], "flex/integrate-vs-bins", "integrate_radial(%.6g, %.6g) vs the sum of bins %d..%d" % (edges[j], edges[-1], j, ne - 2))
                got = arr_of(pm.integrate_radial(edges[j], edges[j + 1]))
                close(got, parr[..., j, 0], "flex/integrate-vs-bins", "integrate_radial(%.6g, %.6g) vs bin %d" % (edges[j], edges[j + 1], j))
            tr += 3
        return {"viol": viol, "obs": "%d bins" % n, "tr": tr, "ref": tr, "err": worst}
    det = abtem.SegmentedDetector(c["nr"], c["na"], c["inner"], c["outer"])
    pm = det.detect(w)
    tr += 1
    parr = arr_of(pm)
    if parr.shape[-2:] != (c["nr"], c["na"]):
        bad("seg/shape", "segmented detector output shape %r" % (parr.shape,))
    close(parr.sum(axis=(-2, -1)), annular(c["inner"], c["outer"]), "seg/sum-vs-annular", "sum over all %dx%d segments vs AnnularDetector(%r, %r)" % (c["nr"], c["na"], c["inner"], c["outer"]))
    # radial rings against annular detectors over the ring ranges
    width = (c["outer"] - c["inner"]) / c["nr"]
    for k in range(c["nr"]):
        close(parr[..., k, :].sum(axis=-1), annular(c["inner"] + k * width, c["inner"] + (k + 1) * width), "seg/ring-vs-annular", "ring %d vs AnnularDetector" % k)
    return {"viol": viol, "obs": "seg", "tr": tr, "ref": tr, "err": worst}
