"""C22 — Cartesian and polar aberration conversions describe the same aberration.

Space: for every (C, phi) pair the conversion supports (C12, C21, C23, C32, C34) the full product C in {-2, 0, 1.5} x
phi in {-1, 0, 0.4, 2, pi/3}; every pair of such pairs jointly; C10, C30 in {-3, 0, 5}; a dense set.
Oracle: chi(alpha, phi) from mc/ref/chi.py for the original and the round-tripped polar set on a 6 x 16 (alpha, phi)
grid (1e-10 of the largest term), and abTEM's own kernel for both sets.
"""
import itertools

import numpy as np

META = dict(
    engines=["product"],
    technique="exhaustive enumeration of coefficient/azimuth value combinations, comparing the aberration function before and after the round trip",
    text="All value combinations (3 magnitudes x 5 azimuths) for each supported (C, phi) pair, all pairs of pairs, the round symmetric terms "
         "and a dense set are converted polar->cartesian->polar; the aberration function of the result is compared with the original on a "
         "6 x 16 (alpha, phi) grid with a float64 reference and additionally through abTEM's kernel. All ordered pairs (thorough: triples) of 5 coefficient sets are converted first and used afterwards (deferred round trips) with snapshots of every returned dict.",
    note="Bound: the stated value alphabet. The coefficients themselves may legitimately differ (sign/azimuth ambiguity); only chi is compared.",
)
PAIRS = [("C12", "phi12"), ("C21", "phi21"), ("C23", "phi23"), ("C32", "phi32"), ("C34", "phi34")]
CV = [-2.0, 0.0, 1.5]
PV = [-1.0, 0.0, 0.4, 2.0, float(np.pi / 3)]


def check(ctx):
    cases = []
    for c, p in PAIRS:
        for cv, pv in itertools.product(CV, PV):
            cases.append({"coef": {c: cv, p: pv}})
    for (c1, p1), (c2, p2) in itertools.combinations(PAIRS, 2):
        for cv1, pv1, cv2, pv2 in itertools.product(CV, PV, CV, PV):
            if ctx.quick and (cv1 == 0.0 or cv2 == 0.0):
                continue
            cases.append({"coef": {c1: cv1, p1: pv1, c2: cv2, p2: pv2}})
    for a, b in itertools.product([-3.0, 0.0, 5.0], repeat=2):
        cases.append({"coef": {"C10": a, "C30": b}})
    cases.append({"coef": {"C10": 3.0, "C12": -2.0, "phi12": 0.4, "C21": 1.5, "phi21": 2.0, "C23": -2.0, "phi23": -1.0, "C30": 5.0,
                           "C32": 1.5, "phi32": float(np.pi / 3), "C34": -2.0, "phi34": 0.4}})
    # deferred round trips: several conversions are made FIRST and their results used afterwards (all ordered pairs and triples of a
    # 5-set alphabet): a later call must not change what an earlier call returned, and the caller's dicts must stay untouched
    for seq in list(itertools.permutations(range(len(DEFERRED)), 2)) + ([] if ctx.quick else list(itertools.permutations(range(len(DEFERRED)), 3))):
        cases.append({"kind": "deferred", "seq": list(seq)})
    # coefficient SERIES: every magnitude / angle given as an array of 3 values (a through-focus or astigmatism series converted at once)
    for c_, p_ in PAIRS:
        cases.append({"kind": "series", "pairs": [[c_, p_]]})
    for (c1, p1), (c2, p2) in itertools.combinations(PAIRS, 2):
        cases.append({"kind": "series", "pairs": [[c1, p1], [c2, p2]]})
    ctx.workers = 8
    ctx.run(cases, "run_case", rule="one case per coefficient set; non-trivial = some magnitude is non-zero")


DEFERRED = [{"C12": 1.5, "phi12": 0.4}, {"C12": -2.0, "phi12": 2.0, "C30": 5.0}, {"C21": 1.5, "phi21": -1.0, "C23": -2.0, "phi23": 0.4},
            {"C10": -3.0, "C32": 1.5, "phi32": float(np.pi / 3), "C34": -2.0, "phi34": 2.0}, {"C10": 5.0}]


def run_deferred(case):
    import copy

    import abtem.transfer as T
    from mc.ref import chi as R

    viol = []
    alpha = np.linspace(0.0, 1.0, 6)[:, None]
    phi = np.linspace(-np.pi, np.pi, 16, endpoint=False)[None]
    inputs = [dict(DEFERRED[i]) for i in case["seq"]]
    in_snap = copy.deepcopy(inputs)
    carts, snaps = [], []
    for d in inputs:  # all forward conversions first ...
        c = T.polar2cartesian(d)
        carts.append(c)
        snaps.append(copy.deepcopy(dict(c)))
    for k, (c, s_) in enumerate(zip(carts, snaps)):
        if dict(c) != s_:
            viol.append({"key": "deferred/polar2cartesian-result-changed", "msg": "the result of polar2cartesian(%r) changed after later conversions of %r: %r -> %r" % (
                in_snap[k], in_snap[k + 1:], {a: round(b, 6) for a, b in s_.items() if b}, {a: round(b, 6) for a, b in dict(c).items() if b})})
            break
    polars, psnaps = [], []
    for c in carts:  # ... then all backward conversions, then the comparison
        p_ = T.cartesian2polar(c)
        polars.append(p_)
        psnaps.append(copy.deepcopy(dict(p_)))
    for k, (p_, s_) in enumerate(zip(polars, psnaps)):
        if dict(p_) != s_:
            viol.append({"key": "deferred/cartesian2polar-result-changed", "msg": "the result of cartesian2polar for set %d changed after later conversions" % k})
            break
    for k, (d, p_) in enumerate(zip(in_snap, polars)):
        a = R.chi(d, alpha, phi)
        b = R.chi({x: float(v) for x, v in p_.items()}, alpha, phi)
        e = float(np.abs(a - b).max()) / max(1.0, float(np.abs(a).max()))
        if not e <= 1e-10 and not viol:
            viol.append({"key": "deferred/chi-differs", "msg": "set %d of the batch %r: chi after the deferred round trip differs by %.3g" % (k, in_snap, e)})
    if inputs != in_snap:
        viol.append({"key": "deferred/input-modified", "msg": "a conversion modified the caller's dict"})
    return {"viol": viol[:2], "obs": "deferred", "nt": True, "tr": 2 * len(inputs), "ref": len(inputs)}


def run_series(case):
    import abtem.transfer as T
    from mc.ref import chi as R

    mags = np.array([1.5, -2.0, 0.75])
    angs = np.array([0.4, -1.0, 2.0])
    coef = {}
    for k, (c_, p_) in enumerate(case["pairs"]):
        coef[c_] = mags * (k + 1)
        coef[p_] = angs + 0.3 * k
    back = T.cartesian2polar(T.polar2cartesian({k: v.copy() for k, v in coef.items()}))
    alpha = np.linspace(0.0, 1.0, 6)[:, None]
    phi = np.linspace(-np.pi, np.pi, 16, endpoint=False)[None]
    viol, worst = [], 0.0
    for i in range(3):
        a = R.chi({k: float(v[i]) for k, v in coef.items()}, alpha, phi)
        try:
            b = R.chi({k: float(np.asarray(v).reshape(-1)[i] if np.asarray(v).size > 1 else np.asarray(v).reshape(-1)[0]) for k, v in back.items()}, alpha, phi)
        except Exception as e:  # noqa: BLE001
            viol.append({"key": "series/shape", "msg": "round-tripped series coefficients do not have one value per member: %r (%s)" % ({k: np.shape(v) for k, v in back.items() if np.size(v) > 0}, e)})
            break
        e_ = float(np.abs(a - b).max()) / max(1.0, float(np.abs(a).max()))
        worst = max(worst, e_ / 1e-10)
        if not e_ <= 1e-10:
            viol.append({"key": "series/chi-differs", "msg": "member %d of the series %r: chi after the round trip differs by %.3g (the magnitudes came back as %r)" % (
                i, {k: v.tolist() for k, v in coef.items()}, e_, {k: np.round(np.asarray(v, float), 4).tolist() for k, v in back.items() if k.startswith("C") and np.any(np.asarray(v) != 0)})})
            break
    return {"viol": viol, "obs": "series", "nt": True, "tr": 2, "ref": 3, "err": worst}


def run_case(case):
    if case.get("kind") == "deferred":
        return run_deferred(case)
    if case.get("kind") == "series":
        return run_series(case)
    import abtem.transfer as T
    from mc.ref import chi as R

    coef = case["coef"]
    viol = []
    back = T.cartesian2polar(T.polar2cartesian(dict(coef)))
    alpha = np.linspace(0.0, 1.0, 6)[:, None]
    phi = np.linspace(-np.pi, np.pi, 16, endpoint=False)[None]
    a = R.chi(coef, alpha, phi)
    b = R.chi({k: float(v) for k, v in back.items()}, alpha, phi)
    scale = max(1.0, float(np.abs(a).max()))
    e = float(np.abs(a - b).max()) / scale
    if not e <= 1e-10:
        i = np.unravel_index(np.argmax(np.abs(a - b)), a.shape)
        terms = "+".join(sorted(k for k, v in coef.items() if k.startswith("C") and v != 0))
        viol.append({"key": "chi-differs/%s" % (terms if len(terms) <= 8 else "dense"), "msg": "chi of %r is %r but after the round trip (%r) it is %r at alpha=%.2f phi=%.3f" % (
            coef, float(a[i]), {k: round(float(v), 6) for k, v in back.items()}, float(b[i]), alpha[i[0], 0], phi[0, i[1]])})
    # abTEM's own kernel on both sets (scaled to modest phases)
    sc = {k: (v * 50.0 if k.startswith("C") else v) for k, v in coef.items()}
    sb = {k: (float(v) * 50.0 if k.startswith("C") else float(v)) for k, v in back.items()}
    al = np.broadcast_to(np.linspace(0, 0.02, 6)[:, None], (6, 16)).astype(np.float32).copy()
    ph = np.broadcast_to(phi, (6, 16)).astype(np.float32).copy()
    k1 = T.Aberrations(energy=100e3, **sc)._evaluate_from_angular_grid(al, ph)
    k2 = T.Aberrations(energy=100e3, **sb)._evaluate_from_angular_grid(al, ph)
    e2 = float(np.abs(np.asarray(k1) - np.asarray(k2)).max())
    if not e2 <= 5e-5 and not viol:
        viol.append({"key": "kernel-differs", "msg": "abTEM kernels of original and round-tripped coefficients differ by %.3g (%r)" % (e2, coef)})
    nt = any(v != 0 for k, v in coef.items() if k.startswith("C"))
    return {"viol": viol, "obs": "%.2e" % e, "nt": nt, "err": e / 1e-10, "tr": 4, "ref": 2}
