"""C26 — Bloch-wave dynamical diffraction conserves intensity.

Space: crystals {Si (F), Au (F), Fe (I), simple cubic Po (P), orthorhombic 2-atom cell, orthogonalised hexagonal cell} x orientation
in {zone axis, 3 small rotations} x energy in {100, 200 keV} x sg_max in {0.05, 0.1, 0.3 (HOLZ)} x g_max in {2, 3} x thickness lists
{(0,), (0, 50, 200), scalar 120} x lazy/eager x use_wave_eq.
Oracle: flux sum I_g/M_g^2 = 1 (1e-6) and |sum I_g - 1| <= max|M_g^2 - 1| for every thickness; thickness 0 => direct beam 1, all others 0; lazy == eager;
|calculate_scattering_matrix(expm) @ psi0|^2 == eigen-decomposition intensities (1e-6); the structure matrix is Hermitian.
"""
import itertools

import numpy as np

META = dict(
    engines=["product"],
    technique="exhaustive enumeration of crystals x orientations x energies x excitation-error / g limits x thickness lists x evaluation modes; conservation laws and a two-path differential oracle",
    text="For 6 crystals (all centerings), 4 orientations, 2 energies, 3 sg_max, 2 g_max, 3 thickness specifications, lazy and eager and both "
         "Bloch-wave equations the real BlochWaves calculation is run and checked for unit total intensity, the zero-thickness limit, lazy/eager "
         "agreement (also with partial occupancy and thermal damping set on the StructureFactor), a Hermitian structure matrix and agreement between the matrix-exponential and eigen-decomposition paths. Six lazy results are evaluated together in every one of their 57 subsets (one dask.compute call) and compared with their own eager results.",
    note="Bound: <= ~700 beams. Tolerance 1e-6 on the conserved flux sum I_g/M_g^2 and on expm-vs-eigh; the plain sum of intensities is allowed to deviate from 1 by max|M_g^2 - 1| (the HOLZ correction factors, ~1e-3 off the zone axis, 0 for ZOLZ beams).",
)
TOL = 1e-6  # expm path vs eigen-decomposition path
CRYSTALS = ["Si", "Au", "Fe", "Po_sc", "ortho2", "hex_ortho"]
ROT = [None, ("x", 1.0), ("y", -2.0), ("x", 0.7, "y", 1.3)]


def crystal(name):
    import ase
    from ase.build import bulk

    if name == "Si":
        return bulk("Si", cubic=True)
    if name == "Au":
        return bulk("Au", cubic=True)
    if name == "Fe":
        return bulk("Fe", cubic=True)
    if name == "Po_sc":
        return ase.Atoms("Po", positions=[(0, 0, 0)], cell=(3.35, 3.35, 3.35), pbc=True)
    if name == "ortho2":
        return ase.Atoms("SiC", scaled_positions=[(0, 0, 0), (0.31, 0.5, 0.27)], cell=(3.1, 4.2, 5.3), pbc=True)
    import abtem

    a = 2.46
    g = ase.Atoms("C2", scaled_positions=[(0, 0, 0.5), (1 / 3, 2 / 3, 0.5)], cell=[[a, 0, 0], [-a / 2, a * np.sqrt(3) / 2, 0], [0, 0, 3.35]], pbc=True)
    return abtem.orthogonalize_cell(g)


def check(ctx):
    q = ctx.quick
    cases = []
    for cr, rot, e, sg, g, th, lazy, weq in itertools.product(CRYSTALS, range(len(ROT)), (100e3, 200e3), (0.05, 0.1, 0.3), (2.0, 3.0), (0, 1, 2), (False, True), (False, True)):
        if q and ((weq and (rot, th) != (0, 1)) or (sg == 0.3 and g == 3.0) or (e == 100e3 and rot not in (0, 1)) or (lazy and th != 1)):
            continue
        cases.append({"crystal": cr, "rot": rot, "energy": e, "sg_max": sg, "g_max": g, "th": th, "lazy": lazy, "wave_eq": weq})
    # structure-factor options (partial occupancy, thermal damping) must reach the lazy and the eager path alike
    for cr, rot, lazy, sfo in itertools.product(CRYSTALS, (0, 1), (False, True), ("occ", "occ-dict", "sigma", "occ+sigma")):
        if q and rot == 1 and not lazy:
            continue
        cases.append({"crystal": cr, "rot": rot, "energy": 200e3, "sg_max": 0.1, "g_max": 2.0, "th": 1, "lazy": lazy, "wave_eq": False, "sf": sfo})
    # several lazy results evaluated in ONE dask graph: every subset (size >= 2) of the orientation series, and two energies / thickness
    # lists of one orientation, must give what each member gives on its own
    for cr in (CRYSTALS[:2] if q else CRYSTALS):
        for e in ((100e3,) if q else (100e3, 200e3)):
            cases.append({"kind": "joint", "crystal": cr, "energy": e, "sg_max": 0.1, "g_max": 2.0})
    ctx.run(cases, "run_case", rule="one case per parameter combination; non-trivial = more than one beam is excited | joint: all subsets of 4 orientations + "
            "(energy, thickness) variants computed in one dask.compute call vs separately")


def run_joint(c):
    import dask

    import abtem

    viol = []
    atoms = crystal(c["crystal"])

    def members():
        out = []
        for i, rot in enumerate(ROT):
            for e, th in (((c["energy"], (0.0, 50.0, 200.0)),) if i else ((c["energy"], (0.0, 50.0, 200.0)), (c["energy"] * 1.5, (0.0, 50.0, 200.0)), (c["energy"], (30.0, 90.0)))):
                sf = abtem.bloch.StructureFactor(atoms, g_max=2 * c["g_max"])
                bw = abtem.bloch.BlochWaves(sf, energy=e, sg_max=c["sg_max"], g_max=c["g_max"])
                if rot is not None:
                    bw = bw.rotate(*rot, degrees=True)
                    if getattr(bw, "ensemble_shape", ()):
                        continue
                out.append(("rot%d/%.0fkeV/%d thicknesses" % (i, e / 1e3, len(th)), bw, list(th)))
        return out

    ms = members()
    eager = [np.asarray(bw.calculate_diffraction_patterns(th, lazy=False).array, dtype=np.float64) for _, bw, th in ms]
    tr = len(ms)
    n = len(ms)
    subsets = [s_ for r in range(2, n + 1) for s_ in itertools.combinations(range(n), r)]
    for sub in subsets:
        lazies = [ms[i][1].calculate_diffraction_patterns(ms[i][2], lazy=True) for i in sub]  # fresh lazy objects for every joint evaluation
        got = dask.compute(*[x.array for x in lazies])
        tr += 1
        for i, g in zip(sub, got):
            g = np.asarray(g, dtype=np.float64)
            if g.shape != eager[i].shape:
                viol.append({"key": "joint-compute/shape", "msg": "computed together with %r: member %s has shape %r, on its own %r (%s)" % ([ms[j][0] for j in sub if j != i], ms[i][0], g.shape, eager[i].shape, c)})
                break
            d = float(np.abs(g - eager[i]).max())
            if d > 1e-6:
                viol.append({"key": "joint-compute/values", "msg": "computed together with %r: member %s differs from its own result by %.3g (%s)" % ([ms[j][0] for j in sub if j != i], ms[i][0], d, c)})
                break
        if len(viol) >= 2:
            break
    return {"viol": viol[:2], "obs": "%d members, %d subsets" % (n, len(subsets)), "nt": True, "tr": tr, "st": len(subsets), "ref": tr}


def run_case(c):
    if c.get("kind") == "joint":
        return run_joint(c)
    import abtem
    from abtem.bloch.dynamical import calculate_scattering_matrix, plane_wave_coefficients

    viol, worst = [], 0.0

    def bad(key, msg):
        viol.append({"key": key, "msg": "%s (%s)" % (msg, c)})

    atoms = crystal(c["crystal"])
    syms = sorted(set(atoms.get_chemical_symbols()))
    sfkw = {None: {}, "occ": {"occupancy": 0.6}, "occ-dict": {"occupancy": {s_: 0.9 - 0.3 * i for i, s_ in enumerate(syms)}}, "sigma": {"thermal_sigma": 0.08},
            "occ+sigma": {"occupancy": 0.7, "thermal_sigma": {s_: 0.05 + 0.03 * i for i, s_ in enumerate(syms)}}}[c.get("sf")]
    sf = abtem.bloch.StructureFactor(atoms, g_max=2 * c["g_max"], **sfkw)
    bw = abtem.bloch.BlochWaves(sf, energy=c["energy"], sg_max=c["sg_max"], g_max=c["g_max"], use_wave_eq=c["wave_eq"])
    rot = ROT[c["rot"]]
    if rot is not None:
        bw = bw.rotate(*rot, degrees=True)
        if getattr(bw, "ensemble_shape", ()):
            return {"viol": [], "obs": "ensemble", "nt": False, "notes": ["rotate() returned an ensemble; not used here"]}
    n = len(bw)
    th = [(0.0,), (0.0, 50.0, 200.0), 120.0][c["th"]]
    dp = bw.calculate_diffraction_patterns(list(th) if isinstance(th, tuple) else th, lazy=c["lazy"])
    dp = dp.compute() if c["lazy"] else dp
    inten = np.asarray(dp.array, dtype=np.float64)
    inten = inten[None] if inten.ndim == 1 else inten
    hkl = np.asarray(bw.hkl)
    tot = inten.sum(axis=-1)
    # with the HOLZ factors M_g = (1 + g_z / K)^(-1/2) the conserved quantity is the flux sum I_g / M_g^2; the plain sum stays within
    # [min M^2, max M^2] of one.  On the zone axis of these crystals M = 1 for all ZOLZ beams and the sum is exactly one.
    from abtem.bloch.dynamical import calculate_M_matrix

    M = np.asarray(calculate_M_matrix(hkl, bw.cell, c["energy"]), dtype=np.float64)
    flux = (inten / M[None] ** 2).sum(axis=-1)
    e = float(np.abs(flux - 1).max())
    worst = max(worst, e / 1e-6)
    if not e <= 1e-6:
        bad("intensity-sum/flux", "sum of I_g / M_g^2 = %r (%d beams)" % (flux.tolist(), n))
    slack = float(np.abs(M ** 2 - 1).max()) + 1e-6
    e = float(np.abs(tot - 1).max())
    if not e <= slack:
        bad("intensity-sum", "diffracted intensities sum to %r (%d beams), allowed deviation max|M^2 - 1| = %.2e" % (tot.tolist(), n, slack))
    if (inten < -1e-9).any():
        bad("negative-intensity", "negative intensities")
    ths = list(th) if isinstance(th, tuple) else [th]
    i0 = np.where((hkl == 0).all(axis=1))[0]
    if len(i0) != 1:
        bad("direct-beam-missing", "the direct beam is not among the %d beams" % n)
    elif 0.0 in ths:
        z = inten[ths.index(0.0)]
        if abs(z[i0[0]] - 1) > 1e-6 or np.abs(np.delete(z, i0[0])).max(initial=0.0) > 1e-6:
            bad("zero-thickness", "at zero thickness the direct beam has %r and the strongest other beam %r" % (z[i0[0]], np.abs(np.delete(z, i0[0])).max(initial=0.0)))
    if c["lazy"]:
        eg = bw.calculate_diffraction_patterns(list(th) if isinstance(th, tuple) else th, lazy=False)
        ea = np.asarray(eg.array, dtype=np.float64)
        ea = ea[None] if ea.ndim == 1 else ea
        d = float(np.abs(ea - inten).max())
        if not d <= 1e-6:
            bad("lazy-vs-eager", "lazy and eager intensities differ by %.3g" % d)
    # matrix exponential path vs eigen-decomposition, Hermitian structure matrix
    A = np.asarray(bw.calculate_structure_matrix(lazy=False), dtype=complex)
    h = float(np.abs(A - A.conj().T).max()) / max(float(np.abs(A).max()), 1e-30)
    if h > 1e-6:
        bad("structure-matrix-not-hermitian", "structure matrix deviates from Hermitian by %.3g (relative)" % h)
    z = [t for t in ths if t > 0][:1]
    if z and n <= 400:
        S = calculate_scattering_matrix(A, hkl, bw.cell, z[0], c["energy"])
        amp = S @ plane_wave_coefficients(hkl, np)
        d = float(np.abs(np.abs(amp) ** 2 - inten[ths.index(z[0])]).max())
        worst = max(worst, d / TOL)
        if not d <= TOL:
            bad("expm-vs-eigendecomposition", "matrix-exponential intensities differ from the eigen-decomposition ones by %.3g at %r A" % (d, z[0]))
    return {"viol": viol, "obs": "%d beams" % n, "nt": n > 1, "tr": 3, "err": worst}
