"""C05 — built probes and plane waves are normalized.

Space: Probe: grids (even, odd, mixed, anisotropic) x energies x semiangle cutoff in {8, 20, 35 mrad (beyond the band of
the smallest grids)} x soft/hard x {no aberration, EACH of the 25 polar symbols alone, 3 mixed sets} x tilt in {0, (5,-3),
distribution} x positions in {none, origin, sub-pixel, list of 3, GridScan} x lazy/eager.  PlaneWave: grids x normalize x
tilt (scalar, distribution with unit weights, Gaussian distributions with non-unit weights, N x 2 array).
Oracle: sum |FFT psi|^2 = 1 for every built probe (and every ensemble member); PlaneWave(normalize=True) likewise;
otherwise |psi| = 1 at every pixel.
"""
import itertools

import numpy as np

META = dict(
    engines=["product", "bfs"],
    technique="exhaustive enumeration of grids x apertures x every aberration symbol x tilts x position sets; invariant checked on every ensemble member",
    text="The product of 4-6 grids, 1-3 energies, 3 cutoffs, soft/hard edge, 29 aberration settings (none, each of the 25 symbols, 3 mixtures), 3 tilt "
         "settings and 5 position sets (quick: a covering sub-product for positions x lazy) is built with the real Probe / PlaneWave and the "
         "reciprocal-space intensity of every member, or the modulus of every pixel, is checked.",
    note="Bound: grids <= 16x12, the parameter alphabets. Tolerance 1e-5 on the intensity (float32), 1e-6 on the pixel modulus.",
)
GRIDS = [((8, 8), (4.0, 4.0)), ((9, 9), (4.0, 4.0)), ((8, 9), (4.0, 4.5)), ((12, 10), (6.0, 4.0)), ((16, 12), (4.0, 3.0)), ((15, 12), (6.0, 4.0))]
CUTOFFS = [8.0, 20.0, 35.0]


def aberration_sets():
    from abtem.transfer import polar_symbols

    sc = {1: 100.0, 2: 2e3, 3: 1e5, 4: 2e6, 5: 1e8}
    sets = [{}]
    for s in polar_symbols:
        if s.startswith("C"):
            sets.append({s: sc[int(s[1])]})
        else:
            sets.append({"C" + s[3:]: sc[int(s[3])], s: 0.7})
    sets += [{"C10": "gauss"}, {"C30": "values", "C10": 60.0}, {"defocus": "gauss", "C12": "values"},
             {"C10": -80.0, "C30": 2e5, "C12": 40.0, "phi12": 0.4}, {"C21": 900.0, "phi21": -1.0, "C23": 500.0, "phi23": 0.3, "C50": 5e7},
             {"C10": 150.0, "C32": 3e4, "phi32": 1.2, "C34": 2e4, "phi34": -0.2, "C45": 1e6, "phi45": 0.5}]
    return sets


def check(ctx):
    q = ctx.quick
    grids = range(4) if q else range(len(GRIDS))
    energies = [100e3] if q else [60e3, 100e3, 300e3]
    nab = len(aberration_sets())
    cases = []
    for g, e, cut, soft, ab, tilt in itertools.product(grids, energies, range(3), (True, False), range(nab), ("none", "scalar", "dist")):
        if q and tilt == "dist" and ab % 7:
            continue
        cases.append({"who": "probe", "g": g, "e": e, "cut": cut, "soft": soft, "ab": ab, "tilt": tilt, "pos": "list3", "lazy": False})
    for g, e, cut, soft, ab, tilt, pos, lazy in itertools.product(grids, energies, range(3), (True, False), (0, 3, nab - 6, nab - 4, nab - 1), ("none", "scalar", "dist"),
                                                                   ("none", "origin", "subpixel", "list3", "grid"), (False, True)):
        if q and (g % 2 or cut == 0) and not (pos == "grid" and lazy):
            continue
        cases.append({"who": "probe", "g": g, "e": e, "cut": cut, "soft": soft, "ab": ab, "tilt": tilt, "pos": pos, "lazy": lazy})
    for g, e, cut, tilt, lazy in itertools.product(grids[:2], energies[:1], (1,), ("gauss", "gauss2"), (False, True)):
        cases.append({"who": "probe", "g": g, "e": e, "cut": cut, "soft": True, "ab": 0, "tilt": tilt, "pos": "list3", "lazy": lazy})
    for g, e, norm, tilt, lazy in itertools.product(grids, energies, (True, False), ("none", "scalar", "dist", "nx2", "gauss", "gauss2"), (False, True)):
        cases.append({"who": "pw", "g": g, "e": e, "norm": norm, "tilt": tilt, "lazy": lazy})
    # histories of edits on ONE Probe object (BFS, depth 2 quick / 3 thorough, dict model in lock-step): after every edit sequence the
    # probe it builds must be normalised and equal to the probe of a FRESH object constructed from the model's parameters
    for first in range(len(HEVENTS)):
        cases.append({"who": "history", "first": first, "depth": 2 if ctx.quick else 3})
    ctx.run(cases, "run_case", rule="one case per builder configuration; every ensemble member checked; non-trivial = aberrations, tilt or several positions present")


def tilt_of(name):
    import abtem.distributions as D

    if name == "none":
        return (0.0, 0.0)
    if name == "scalar":
        return (5.0, -3.0)
    if name == "dist":
        return (D.from_values([0.0, 4.0]), -2.0)
    if name == "gauss":  # a distribution with NON-UNIT weights: the weights belong to the later averaging, not to the members' amplitude
        return (D.gaussian(2.0, num_samples=5), 0.0)
    if name == "gauss2":
        return (D.gaussian(2.0, num_samples=3), D.gaussian(1.5, num_samples=3))
    return np.array([[0.0, 0.0], [5.0, -3.0], [-7.0, 2.0]])


HEVENTS = [("semiangle_cutoff", 10.0), ("semiangle_cutoff", 25.0), ("aperture.semiangle_cutoff", 15.0), ("energy", 60e3), ("energy", 200e3), ("gpts", (20, 18)),
           ("gpts", (16, 16)), ("sampling", 0.4), ("extent", (6.0, 7.0)), ("aberrations.C10", 80.0), ("aberrations.C30", -2e4), ("C12", 40.0),
           ("match-potential", None), ("build-scan", None)]


def run_history(c):
    import abtem
    from mc.bfs import bfs

    base = dict(semiangle_cutoff=20.0, energy=100e3, gpts=(16, 16), extent=(8.0, 8.0), C10=30.0, C30=0.0, C12=0.0)
    worst = [0.0]

    def make(model):
        kw = {k: v for k, v in model.items() if k not in ("sampling_set",)}
        return abtem.Probe(**kw)

    def fresh():
        return {"p": make(base), "m": dict(base), "hist": []}

    def apply(s, ev):
        name, val = ev
        p, m = s["p"], s["m"]
        if name == "aperture.semiangle_cutoff":
            p.aperture.semiangle_cutoff = val
            m["semiangle_cutoff"] = val
        elif name.startswith("aberrations."):
            setattr(p.aberrations, name.split(".")[1], val)
            m[name.split(".")[1]] = val
        elif name == "C12":
            p.aberrations.set_aberrations({"astigmatism": val})
            m["C12"] = val
        elif name == "gpts":
            p.gpts = val
            m["gpts"] = tuple(val)  # extent stays, sampling follows
        elif name == "sampling":
            p.sampling = val
            m["gpts"] = tuple(p.gpts)  # the Grid model itself is C17's business: take the resulting grid from the object
            m["extent"] = tuple(p.extent)
        elif name == "extent":
            p.extent = val
            m["extent"] = tuple(p.extent)
            m["gpts"] = tuple(p.gpts)
        elif name == "match-potential":
            pot = abtem.PotentialArray(np.zeros((1, 24, 20), np.float32), slice_thickness=1.0, extent=(9.0, 7.5))
            p.grid.match(pot)
            m["gpts"], m["extent"] = (24, 20), (9.0, 7.5)
        elif name == "build-scan":
            p.build(abtem.GridScan(start=(0, 0), end=(2, 2), gpts=(2, 2)), lazy=False)
        else:
            setattr(p, name, val)
            m[name] = val
        s["hist"].append(ev)
        return name

    def enabled(s):
        return HEVENTS if s["hist"] else [HEVENTS[c["first"]]]

    def canon(s):  # never merged: what the probe remembers from earlier edits is the object of study
        return tuple(s["hist"])

    def check(s, hist, ev, info, pre):
        out = []
        pos = abtem.CustomScan([[0.0, 0.0], [1.3, 2.1]])
        try:
            got = np.asarray(s["p"].build(pos, lazy=False).array)
        except Exception as e:  # noqa: BLE001
            try:
                make(s["m"]).build(pos, lazy=False)
            except Exception:  # noqa: BLE001  (the parameter set itself is unbuildable: outcome classes agree)
                return []
            return [("history/build-raises/%s" % type(e).__name__, "build after %r raised %s: %s (a fresh Probe%r builds)" % (list(hist) + [ev], type(e).__name__, str(e)[:100], s["m"]))]
        inten = (np.abs(np.fft.fft2(got)) ** 2).sum(axis=(-2, -1))
        e = float(np.abs(inten - 1).max())
        worst[0] = max(worst[0], e / 1e-4)
        if not e <= 1e-4:
            out.append(("history/not-normalised", "probe built after %r has sum|FFT psi|^2 = %r" % (list(hist) + [ev], np.round(inten, 5).tolist())))
        ref = np.asarray(make(s["m"]).build(pos, lazy=False).array)
        if got.shape != ref.shape:
            out.append(("history/shape", "probe built after %r has shape %r, a fresh Probe%r gives %r" % (list(hist) + [ev], got.shape, s["m"], ref.shape)))
        else:
            d = float(np.abs(got - ref).max()) / float(np.abs(ref).max())
            worst[0] = max(worst[0], d / 1e-5)
            if not d <= 1e-5:
                out.append(("history/differs-from-fresh", "probe built after %r differs from a fresh Probe%r by %.3g (relative)" % (list(hist) + [ev], s["m"], d)))
        return out

    res = bfs(fresh, apply, enabled, canon, check, c["depth"])
    viol, seen = [], set()
    for key, msg, hist in res["violations"]:
        if key not in seen:
            seen.add(key)
            viol.append({"key": key, "msg": "%s (%s)" % (msg, c)})
    return {"viol": viol, "obs": "%d histories" % len(res["states"]), "st": len(res["states"]), "tr": res["transitions"], "ref": res["transitions"], "err": worst[0], "nt": True}


def run_case(c):
    if c.get("who") == "history":
        return run_history(c)
    import abtem

    gpts, extent = GRIDS[c["g"]]
    viol = []
    if c["who"] == "pw":
        w = abtem.PlaneWave(gpts=gpts, extent=extent, energy=c["e"], normalize=c["norm"], tilt=tilt_of(c["tilt"])).build(lazy=c["lazy"])
        w = w.compute() if c["lazy"] else w
        arr = np.asarray(w.array).astype(np.complex128)
        if c["norm"]:
            inten = (np.abs(np.fft.fft2(arr)) ** 2).sum(axis=(-2, -1))
            e = float(np.abs(inten - 1).max())
            if not e <= 1e-5:
                viol.append({"key": "planewave/normalized-intensity", "msg": "sum|FFT psi|^2 = %r (%s)" % (inten.tolist(), c)})
            return {"viol": viol, "obs": "%.6f" % float(np.mean(inten)), "nt": c["tilt"] != "none", "err": e / 1e-5}
        e = float(np.abs(np.abs(arr) - 1).max())
        if not e <= 1e-6:
            viol.append({"key": "planewave/unit-modulus", "msg": "|psi| deviates from 1 by %.3g (%s)" % (e, c)})
        return {"viol": viol, "obs": "modulus", "nt": c["tilt"] != "none", "err": e / 1e-6}
    import abtem.distributions as D

    ab = dict(aberration_sets()[c["ab"]])
    for k, v in list(ab.items()):  # distribution-valued aberrations (weighted and unweighted): every member must still be normalised
        if v == "gauss":
            ab[k] = D.gaussian(30.0, 3, center=20.0, ensemble_mean=False, sampling_limit=2.0)
        elif v == "values":
            ab[k] = D.from_values([1e4, 8e4] if k == "C30" else [15.0, 40.0])
    probe = abtem.Probe(semiangle_cutoff=CUTOFFS[c["cut"]], soft=c["soft"], gpts=gpts, extent=extent, energy=c["e"], tilt=tilt_of(c["tilt"]), **ab)
    pos = {"none": None, "origin": abtem.CustomScan([[0.0, 0.0]]), "subpixel": abtem.CustomScan([[0.37 * extent[0] / gpts[0], 1.61 * extent[1] / gpts[1]]]),
           "list3": abtem.CustomScan([[0.0, 0.0], [1.3, 2.2], [extent[0] - 1e-3, 0.5 * extent[1]]]),
           "grid": abtem.GridScan(start=(0, 0), end=(extent[0] / 2, extent[1] / 2), gpts=(2, 3))}[c["pos"]]
    w = probe.build(pos, lazy=c["lazy"]) if pos is not None else probe.build(lazy=c["lazy"])
    w = w.compute() if c["lazy"] else w
    arr = np.asarray(w.array).astype(np.complex128)
    inten = (np.abs(np.fft.fft2(arr)) ** 2).sum(axis=(-2, -1))
    e = float(np.abs(np.asarray(inten) - 1).max())
    if not e <= 1e-5 or not np.isfinite(arr).all():
        kind = "aberrated" if ab else "plain"
        viol.append({"key": "probe/intensity/%s/%s" % (kind, "tilted" if c["tilt"] != "none" else "untilted"),
                     "msg": "sum|FFT psi|^2 = %r for members of shape %r, aberrations %r (%s)" % (np.round(np.ravel(inten)[:4], 6).tolist(), arr.shape[:-2], aberration_sets()[c["ab"]], c)})
    return {"viol": viol, "obs": "%.5f" % float(np.mean(inten)), "nt": bool(ab) or c["tilt"] != "none" or c["pos"] in ("list3", "grid"), "tr": 1,
            "ref": int(np.size(inten)), "err": e / 1e-5}
