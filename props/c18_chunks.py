"""C18 — chunk computations partition arrays exactly.

Space: all shapes with ndim <= 3 and small sides; per dimension every spec from {-1, 1, 2, 3, 'auto', every explicit
composition of the side}; whole-spec integers; every element limit 1..L (and byte-string limits with a dtype);
equal_sized_chunks / generate_chunks for all 0 <= n <= N and all 1 <= m, c <= n; chunk_ranges / iterate_chunk_ranges on
every validated result.  Oracle (ref model is brute force arithmetic): sums equal the shape; when a chunking compatible
with the spec fits the limit (decided by brute force: the non-auto dimensions alone fit), the returned block volume is
<= limit; equal chunks: len = m, sum = n, max - min <= 1; ranges contiguous from 0 (or start) to n and the slices
reassemble np.arange.  A call that raises is an outcome the property does not speak about (observation).
"""
import itertools

import numpy as np

from mc.compare import compositions

META = dict(
    engines=["product"],
    technique="exhaustive enumeration of shapes x chunk specifications x element limits against a brute-force reference",
    text="Every shape up to 3 dimensions with sides <= 5 (quick: 3-D sides <= 3), every per-dimension chunk specification "
         "(-1, 1, 2, 3, 'auto', all explicit compositions), every element limit 1..30 (quick: 10 values) and every (n, m) / (n, chunk_size) "
         "pair with n <= 40 are executed on the real chunk functions and compared with brute-force arithmetic.",
    note="Bound: sides <= 5/7, limits <= 30, n <= 40. Raising calls are outcomes the property does not constrain. "
         "Optimality of automatic chunks is not demanded (the statement only bounds them).",
)


def dim_specs(s, maxcomp=4):
    specs = [-1, 1, 2, 3, "auto"]
    if s <= maxcomp:
        specs += [list(c) for c in compositions(s)]
    return specs


def check(ctx):
    q = ctx.quick
    sides = range(1, 6) if q else range(1, 8)
    shapes = [[a] for a in sides] + [[a, b] for a in sides for b in sides]
    s3 = range(1, 4) if q else range(1, 6)
    shapes += [[a, b, c] for a in s3 for b in s3 for c in s3]
    limits = [1, 2, 3, 4, 5, 6, 8, 12, 20, 30] if q else list(range(1, 31)) + [64, 1000]
    cases = [{"kind": "validate", "shape": s, "limits": limits} for s in shapes]
    # histories of the configured limit: max_elements='auto' reads dask.chunk-size; the same request is repeated under every ordered
    # pair (thorough: triple) of three settings and must respect the limit in force at each call
    import itertools as _it

    sizes = ["64 B", "256 B", "4 kB"]
    for seq in list(_it.permutations(range(3), 2)) + ([] if q else list(_it.permutations(range(3), 3))):
        cases.append({"kind": "config-history", "seq": list(seq), "sizes": sizes})
    nmax = 24 if q else 40
    cases += [{"kind": "equal", "n": n} for n in range(0, nmax + 1)]
    ctx.run(cases, "run_case", rule="one case per shape (all specs x limits inside) and per n (all m, chunk sizes, starts inside); "
            "st counts the inner sub-cases; non-trivial = the result has more than one block or an 'auto' dimension")


def _to_spec(spec):
    return tuple(tuple(c) if isinstance(c, list) else c for c in spec)


def check_validate(shape, spec, limit, dtype=None):
    """returns (violations, observed, nontrivial)"""
    from abtem.core import chunks as CH

    shape = tuple(shape)
    viol = []
    try:
        if isinstance(spec, int):
            res = CH.validate_chunks(shape, spec)
        else:
            res = CH.validate_chunks(shape, _to_spec(spec), max_elements=limit, dtype=dtype)
    except Exception as e:  # noqa: BLE001
        return [], "raises:" + type(e).__name__, False
    sub = {"shape": list(shape), "spec": spec, "limit": limit, "dtype": dtype}

    def bad(key, msg):
        viol.append({"key": key, "msg": "%s; shape=%r spec=%r limit=%r -> %r" % (msg, shape, spec, limit, res), "case": sub,
                     "func": "run_one"})

    ok_type = isinstance(res, tuple) and len(res) == len(shape) and all(
        isinstance(c, tuple) and len(c) > 0 and all(isinstance(x, (int, np.integer)) and x > 0 for x in c) for c in res)
    if not ok_type:
        bad("validate/not-positive-int-tuples", "result is not a tuple of non-empty tuples of positive ints")
        return viol, "bad", True
    if any(sum(c) != s for c, s in zip(res, shape)):
        bad("validate/sum", "chunks do not sum to the shape")
    # the spec must be honoured for explicit dimensions
    if not isinstance(spec, int):
        for c, s, sp in zip(res, shape, _to_spec(spec)):
            if isinstance(sp, tuple) and c != sp:
                bad("validate/explicit-changed", "explicit chunks were altered")
            elif sp == -1 and c != (s,):
                bad("validate/minus-one", "-1 must give a single chunk")
            elif isinstance(sp, int) and sp > 0 and max(c) > sp:
                bad("validate/int-exceeded", "an integer chunk size was exceeded")
    # element limit
    if isinstance(spec, int) and spec != -1:
        lim, autos, fixed = spec, [True] * len(shape), 1
    elif isinstance(spec, int):
        lim, autos, fixed = None, [], 1
    else:
        sp = _to_spec(spec)
        autos = [x == "auto" for x in sp]
        lim = limit if any(autos) else None
        if isinstance(lim, str):
            from dask.utils import parse_bytes

            lim = int(parse_bytes(lim) // np.dtype(dtype).itemsize)
        fixed = 1
        for c, a in zip(res, autos):
            if not a:
                fixed *= max(c)
    if lim is not None:
        vol = 1
        for c in res:
            vol *= max(c)
        exists = fixed <= lim  # brute force: auto dimensions can always be cut down to 1
        if exists and vol > lim:
            bad("auto/limit-exceeded", "block volume %d exceeds limit %d although a compatible chunking fits" % (vol, lim))
    # ranges
    rng = CH.chunk_ranges(res)
    for r, s in zip(rng, shape):
        flat = [x for ab in r for x in ab]
        if r[0][0] != 0 or r[-1][1] != s or any(a >= b for a, b in r) or any(r[i][1] != r[i + 1][0] for i in range(len(r) - 1)):
            bad("ranges/not-contiguous-cover", "chunk_ranges %r" % (r,))
    arr = np.arange(int(np.prod(shape))).reshape(shape)
    out = np.full(shape, -1)
    nblocks = 0
    seen = set()
    for bi, sl in CH.iterate_chunk_ranges(res):
        out[sl] = arr[sl]
        nblocks += 1
        seen.add(bi)
        if arr[sl].shape != tuple(res[d][i] for d, i in enumerate(bi)):
            bad("ranges/block-shape", "block %r has shape %r" % (bi, arr[sl].shape))
    if not np.array_equal(out, arr) or nblocks != int(np.prod([len(c) for c in res])) or len(seen) != nblocks:
        bad("ranges/iterate-cover", "iterate_chunk_ranges does not cover the array exactly once")
    return viol, repr(res), nblocks > 1 or any(autos)


def run_one(case):
    v, obs, nt = check_validate(case["shape"], case["spec"], case["limit"], case.get("dtype"))
    return {"viol": v, "obs": obs, "nt": nt}


def check_equal(n, m=None, c=None, start=0):
    from abtem.core import chunks as CH

    viol = []
    sub = {"n": n, "m": m, "c": c, "start": start}

    def bad(key, msg, res):
        viol.append({"key": key, "msg": "%s; n=%r num_chunks=%r chunk_size=%r start=%r -> %r" % (msg, n, m, c, start, res), "case": sub,
                     "func": "run_equal"})

    try:
        res = CH.equal_sized_chunks(n, num_chunks=m, chunk_size=c)
    except Exception as e:  # noqa: BLE001
        return [], "raises:" + type(e).__name__, []
    notes = []
    if n == 0:
        if res != ():
            bad("equal/zero", "0 items must give no chunks", res)
    else:
        if sum(res) != n or any(x <= 0 for x in res):
            bad("equal/sum", "chunks do not sum to n or are not positive", res)
        if max(res) - min(res) > 1:
            bad("equal/spread", "sizes differ by more than one", res)
        if m is not None and len(res) != m:
            bad("equal/count", "number of chunks is not num_chunks", res)
        if c is not None and max(res) > c:
            notes.append("chunk_size exceeded by equal_sized_chunks (not demanded by the statement)")
    gen = list(CH.generate_chunks(n, num_chunks=m, chunks=c, start=start))
    if n > 0:
        if [b - a for a, b in gen] != list(res):
            bad("generate/sizes", "generate_chunks sizes differ from equal_sized_chunks", gen)
        if gen[0][0] != start or gen[-1][1] != start + n or any(gen[i][1] != gen[i + 1][0] for i in range(len(gen) - 1)):
            bad("generate/contiguous", "ranges are not contiguous from start to start+n", gen)
    elif gen:
        bad("generate/zero", "0 items must generate nothing", gen)
    return viol, repr(res), notes


def run_equal(case):
    v, obs, notes = check_equal(case["n"], case["m"], case["c"], case["start"])
    return {"viol": v, "obs": obs, "notes": notes}


def run_config_history(c):
    import abtem
    from abtem.core import chunks as CH
    from dask.utils import parse_bytes

    viol, tr = [], 0
    # every history gets shapes of its own, so that nothing an earlier case of this worker process asked for can be remembered
    u = 1 + sum(k * 3 ** i for i, k in enumerate(c["seq"]))
    shapes = [(6, 5, 4 + u), (40 + u,), (7, 9 + u), (3, 3, 3, 3 + u)]
    specs = {1: [("auto",)], 2: [("auto", "auto"), ("auto", -1), (1, "auto")], 3: [("auto", "auto", "auto"), ("auto", -1, -1), (2, "auto", -1)], 4: [("auto", "auto", -1, -1)]}
    for shape in shapes:
        for spec in specs[len(shape)]:
            for step, k in enumerate(c["seq"]):
                cs = c["sizes"][k]
                lim = int(parse_bytes(cs) // 4)
                with abtem.config.set({"dask.chunk-size": cs}):
                    res = CH.validate_chunks(shape, spec, max_elements="auto", dtype=np.float32)
                tr += 1
                if tuple(sum(x) for x in res) != tuple(shape):
                    viol.append({"key": "config-history/sums", "msg": "chunks %r do not sum to %r" % (res, shape)})
                fixed, vol = 1, 1
                for ch, sp in zip(res, spec):
                    vol *= max(ch)
                    if sp != "auto":
                        fixed *= max(ch)
                if fixed <= lim and vol > lim and len(viol) < 2:
                    viol.append({"key": "config-history/limit-exceeded", "msg": "shape %r spec %r under dask.chunk-size=%s (limit %d elements) after the settings %r: block volume %d (chunks %r) (%s)" % (
                        shape, spec, cs, lim, [c["sizes"][j] for j in c["seq"][:step]], vol, res, c)})
    return {"viol": viol, "obs": "config-history", "nt": True, "tr": tr, "st": tr, "ref": tr}


def run_case(case):
    if case.get("kind") == "config-history":
        return run_config_history(case)
    viol, outcomes, n_sub, n_nt, notes = [], set(), 0, 0, set()

    def add(v):
        for x in v:
            if sum(1 for y in viol if y["key"] == x["key"]) < 2:
                viol.append(x)

    if case["kind"] == "validate":
        shape = case["shape"]
        per_dim = [dim_specs(s) for s in shape]
        for spec in itertools.product(*per_dim):
            spec = list(spec)
            lims = case["limits"] if "auto" in spec else [None]
            for lim in lims:
                v, obs, nt = check_validate(shape, spec, lim)
                add(v)
                n_sub += 1
                n_nt += bool(nt)
                outcomes.add(obs if obs.startswith("raises") else "ok")
                if obs.startswith("raises") and "auto" in spec:
                    notes.add("validate_chunks raised for an 'auto' spec (outcome not constrained by the property)")
            if "auto" in spec:
                for lim, dt in (("16 B", "float32"), ("64 B", "complex64")):
                    v, obs, nt = check_validate(shape, spec, lim, dt)
                    add(v)
                    n_sub += 1
        for whole in [-1] + list(case["limits"]):
            v, obs, nt = check_validate(shape, whole, None)
            add(v)
            n_sub += 1
            n_nt += bool(nt)
    else:
        n = case["n"]
        for m in range(1, max(n, 1) + 1):
            for start in (0, 3):
                v, obs, nn = check_equal(n, m=m, start=start)
                add(v)
                n_sub += 1
                n_nt += m > 1
                v, obs, nn = check_equal(n, c=m, start=start)
                add(v)
                notes.update(nn)
                n_sub += 1
        v, obs, nn = check_equal(n, m=n + 1)  # more chunks than items: must raise or still partition
        add(v)
        outcomes.add(obs if obs.startswith("raises") else "ok")
    return {"viol": viol, "obs": "%s sub=%d" % (sorted(outcomes), n_sub), "nt": n_nt > 0, "tr": n_sub, "st": n_sub, "ref": n_sub,
            "notes": sorted(notes)}
