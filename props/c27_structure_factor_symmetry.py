"""C27 — structure factors respect crystal symmetry.

Space: crystals {Si (F), Au (F), Fe (I), simple cubic, orthorhombic 2-atom (P), A-, B-, C-centred orthorhombic, non-centred 3-atom
cell, orthogonalised hexagonal, and five cells with a NON-symmetric cell matrix: hexagonal graphite, hcp Mg, monoclinic,
triclinic, an orthorhombic cell rotated by 30 deg} x g_max in {3, 5} x thermal sigma in {0, 0.08, per element} x occupancy in {1, 0.5} x lattice
translations of all atoms {none, +a, -b, a+b-c}.
Oracle: F(-h) = conj F(h) for EVERY hkl of the grid; every reflection forbidden by the centering (reference conditions from the
International Tables, typed in here; abTEM's get_reflection_condition and auto_detect_centering must agree with them) has
|F| <= 1e-5 max|F| when the structure factor is built with centering='P'; get_potential_3d() has zero imaginary part; a
lattice translation leaves every F unchanged; F(hkl) equals the geometric sum over the textbook fractional coordinates
(one-atom-at-origin structure factors of the same cell times sum_j exp(2 pi i h.x_j)).
"""
import itertools

import numpy as np

META = dict(
    engines=["product"],
    technique="exhaustive enumeration of crystals (all centerings) x g_max x thermal / occupancy settings x lattice translations; symmetry relations checked on every reflection",
    text="For 15 crystals (5 of them non-orthogonal or rotated) covering P, I, F, A, B and C centering, two g_max, three thermal-sigma settings, two occupancies and four lattice translations "
         "the real StructureFactor is built and every reflection is checked for Friedel symmetry, every centering-forbidden reflection for a "
         "vanishing structure factor, the reflection-condition helper against typed-in conditions, the reconstructed potential for a zero imaginary "
         "part and the translated crystal for identical structure factors.",
    note="Bound: g_max <= 5 1/A (a few thousand reflections), <= 8 atoms. Tolerance 1e-5 of max|F| (float32 scattering factors).",
)
CRYSTALS = ["Si", "Au", "Fe", "Po_sc", "ortho2", "A_ortho", "B_ortho", "C_ortho", "noncentred3", "hex_ortho",
            "graphite_hex", "Mg_hcp", "monoclinic2", "triclinic3", "ortho2_rotated", "MgO_CaSub"]
CENTERING = {"Si": "F", "Au": "F", "Fe": "I", "Po_sc": "P", "ortho2": "P", "A_ortho": "A", "B_ortho": "B", "C_ortho": "C", "noncentred3": "P", "hex_ortho": "C",
             "MgO_CaSub": "P", "graphite_hex": "P", "Mg_hcp": "P", "monoclinic2": "P", "triclinic3": "P", "ortho2_rotated": "P"}
SIGMAS = [0.0, 0.08, "element"]


def crystal(name):
    import ase
    from ase.build import bulk

    cell = (3.1, 4.2, 5.3)
    base = [("Si", (0.0, 0.0, 0.0)), ("C", (0.31, 0.12, 0.27))]

    def centred(shift):
        syms, pos = [], []
        for s, p in base:
            for sh in ((0, 0, 0), shift):
                syms.append(s)
                pos.append(tuple((np.array(p) + np.array(sh)) % 1.0))
        return ase.Atoms(syms, scaled_positions=pos, cell=cell, pbc=True)

    if name in ("Si", "Au", "Fe"):
        return bulk(name, cubic=True)
    if name == "Po_sc":
        return ase.Atoms("Po", positions=[(0, 0, 0)], cell=(3.35, 3.35, 3.35), pbc=True)
    if name == "ortho2":
        return ase.Atoms("SiC", scaled_positions=[(0, 0, 0), (0.31, 0.5, 0.27)], cell=cell, pbc=True)
    if name == "A_ortho":
        return centred((0, 0.5, 0.5))
    if name == "B_ortho":
        return centred((0.5, 0, 0.5))
    if name == "C_ortho":
        return centred((0.5, 0.5, 0))
    if name == "noncentred3":
        return ase.Atoms("SiCO", scaled_positions=[(0.1, 0.2, 0.05), (0.45, 0.6, 0.3), (0.8, 0.15, 0.7)], cell=(3.3, 3.9, 4.4), pbc=True)
    # cells whose 3x3 matrix is NOT symmetric (fractional coordinates = positions @ inv(cell), not its transpose)
    if name == "Mg_hcp":
        return bulk("Mg")
    if name == "MgO_CaSub":  # rock salt with ONE cation replaced: the lightest species (O) alone is F-centred, the crystal is primitive
        m = bulk("MgO", "rocksalt", a=4.21, cubic=True)
        sy = m.get_chemical_symbols()
        sy[sy.index("Mg")] = "Ca"
        m.set_chemical_symbols(sy)
        return m
    if name == "monoclinic2":
        return ase.Atoms("SiC", scaled_positions=[(0.1, 0.2, 0.3), (0.6, 0.45, 0.8)], cell=[[3.2, 0, 0], [0, 4.1, 0], [-1.1, 0, 5.0]], pbc=True)
    if name == "triclinic3":
        return ase.Atoms("SiCO", scaled_positions=[(0.1, 0.2, 0.05), (0.45, 0.6, 0.3), (0.8, 0.15, 0.7)],
                         cell=[[3.3, 0, 0], [0.7, 3.9, 0], [0.4, -0.6, 4.4]], pbc=True)
    if name == "ortho2_rotated":
        r = ase.Atoms("SiC", scaled_positions=[(0, 0, 0), (0.31, 0.5, 0.27)], cell=cell, pbc=True)
        r.rotate(30, "z", rotate_cell=True)
        return r
    import abtem

    a = 2.46
    g = ase.Atoms("C2", scaled_positions=[(0, 0, 0.5), (1 / 3, 2 / 3, 0.5)], cell=[[a, 0, 0], [-a / 2, a * np.sqrt(3) / 2, 0], [0, 0, 3.35]], pbc=True)
    if name == "graphite_hex":
        return g
    return abtem.orthogonalize_cell(g)


def allowed(hkl, centering):
    """reflection conditions of the International Tables"""
    h, k, l = hkl[:, 0], hkl[:, 1], hkl[:, 2]
    return {"P": np.ones(len(hkl), bool), "I": (h + k + l) % 2 == 0, "F": ((h + k) % 2 == 0) & ((k + l) % 2 == 0) & ((h + l) % 2 == 0),
            "A": (k + l) % 2 == 0, "B": (h + l) % 2 == 0, "C": (h + k) % 2 == 0}[centering]


def check(ctx):
    cases = []
    for cr, g, s, occ in itertools.product(CRYSTALS, (3.0, 5.0), range(len(SIGMAS)), (1.0, 0.5)):
        if ctx.quick and g == 5.0 and (s, occ) != (1, 1.0):
            continue
        cases.append({"crystal": cr, "g_max": g, "sigma": s, "occ": occ})
    ctx.run(cases, "run_case", rule="one case per (crystal, g_max, sigma, occupancy); all reflections and 3 translations inside; non-trivial = all")


def run_case(c):
    import abtem
    from abtem.bloch.utils import auto_detect_centering, get_reflection_condition

    viol, worst = [], 0.0

    def bad(key, msg):
        if sum(1 for v in viol if v["key"] == key) < 2:
            viol.append({"key": key, "msg": "%s (%s)" % (msg, c)})

    atoms = crystal(c["crystal"])
    sig = SIGMAS[c["sigma"]]
    if sig == "element":
        sig = {s: 0.05 + 0.03 * i for i, s in enumerate(sorted(set(atoms.get_chemical_symbols())))}
    cent = CENTERING[c["crystal"]]

    def build(a, centering="P"):
        sf = abtem.bloch.StructureFactor(a, g_max=c["g_max"], thermal_sigma=sig, occupancy=c["occ"], centering=centering)
        arr = sf.build(lazy=False)
        return np.asarray(arr.hkl), np.asarray(arr.array, dtype=np.complex128), sf

    hkl, F, sf = build(atoms)
    fmax = float(np.abs(F).max())
    index = {tuple(h): i for i, h in enumerate(hkl.tolist())}
    # Friedel pairs
    miss, worst_f = 0, 0.0
    for h, i in index.items():
        j = index.get(tuple(-x for x in h))
        if j is None:
            miss += 1
            continue
        worst_f = max(worst_f, abs(F[i] - np.conj(F[j])))
    worst = max(worst, worst_f / (1e-5 * fmax))
    if worst_f > 1e-5 * fmax:
        bad("friedel", "max |F(h) - conj F(-h)| = %.3g on max|F| = %.3g" % (worst_f, fmax))
    if miss:
        bad("friedel/grid-not-symmetric", "%d reflections have no -h partner in the hkl grid" % miss)
    # centering: forbidden reflections vanish, helper functions agree with the tables
    ok = allowed(hkl, cent)
    if (~ok).any():
        fz = float(np.abs(F[~ok]).max())
        worst = max(worst, fz / (1e-5 * fmax))
        if fz > 1e-5 * fmax:
            bad("forbidden-reflection-nonzero/" + cent, "a reflection forbidden by %s centering has |F| = %.3g (max|F| %.3g)" % (cent, fz, fmax))
    try:
        mask = np.asarray(get_reflection_condition(hkl, cent))
        if mask.shape != ok.shape or not np.array_equal(mask.astype(bool), ok):
            bad("reflection-condition/" + cent, "get_reflection_condition(%s) disagrees with the International Tables condition for %d reflections" % (cent, int((mask.astype(bool) != ok).sum())))
    except Exception as e:  # noqa: BLE001
        bad("reflection-condition-raises/" + cent, "get_reflection_condition(hkl, %r) raised %s: %s" % (cent, type(e).__name__, str(e)[:100]))
    try:
        det = auto_detect_centering(atoms)
        # a detected centering must never forbid a reflection that is actually present
        present = np.abs(F) > 1e-4 * fmax
        if (present & ~allowed(hkl, det)).any():
            bad("auto-centering/forbids-present-reflection", "auto_detect_centering gives %r, which forbids reflections with non-zero structure factor" % det)
        hkl_c, F_c, _ = build(atoms, centering=det)
        idx_c = {tuple(h): i for i, h in enumerate(hkl_c.tolist())}
        d = max((abs(F_c[i] - F[index[h]]) for h, i in idx_c.items() if h in index), default=0.0)
        if d > 1e-5 * fmax:
            bad("auto-centering/values", "structure factors built with centering %r differ from the P build by %.3g" % (det, d))
    except Exception as e:  # noqa: BLE001
        bad("auto-centering-raises", "building with the auto-detected centering raised %s: %s" % (type(e).__name__, str(e)[:100]))
    # real potential
    try:
        V = np.asarray(sf.get_potential_3d(lazy=False))
        if np.iscomplexobj(V) and float(np.abs(V.imag).max()) > 1e-4 * float(np.abs(V.real).max()):
            bad("potential-not-real", "get_potential_3d has imaginary part %.3g of max %.3g" % (float(np.abs(V.imag).max()), float(np.abs(V.real).max())))
    except Exception as e:  # noqa: BLE001
        bad("potential-raises", "get_potential_3d raised %s: %s" % (type(e).__name__, str(e)[:100]))
    # geometric structure factor: F(hkl) = sum_species F_one-atom-at-origin(hkl) * sum_j exp(-+2 pi i h.x_j) with x_j the textbook
    # fractional coordinates positions @ inv(cell); either sign convention is accepted, but one of them must fit every reflection
    try:
        syms = atoms.get_chemical_symbols()
        frac = np.asarray(atoms.positions) @ np.linalg.inv(np.asarray(atoms.cell))
        tot = {1: 0.0, -1: 0.0}
        for sp in sorted(set(syms)):
            one = atoms[[syms.index(sp)]].copy()
            one.positions[:] = 0.0
            hkl1, F1, _ = build(one)
            if not np.array_equal(hkl1, hkl):
                raise RuntimeError("hkl grid depends on the basis")
            x = frac[[s_ == sp for s_ in syms]]
            for sgn in (1, -1):
                tot[sgn] = tot[sgn] + F1 * np.exp(sgn * 2j * np.pi * (hkl @ x.T)).sum(axis=1)
        d = min(float(np.abs(tot[sgn] - F).max()) for sgn in (1, -1))
        worst = max(worst, d / (1e-5 * fmax))
        if d > 1e-5 * fmax:
            bad("geometric-structure-factor", "F(hkl) differs from sum_j f_j(g) exp(2 pi i h.x_j) over the fractional coordinates by %.3g (max|F| %.3g)" % (d, fmax))
    except Exception as e:  # noqa: BLE001
        bad("geometric-structure-factor-raises", "%s: %s" % (type(e).__name__, str(e)[:100]))
    # lattice translations
    cell = np.asarray(atoms.cell)
    for name, t in (("+a", cell[0]), ("-b", -cell[1]), ("a+b-c", cell[0] + cell[1] - cell[2])):
        b = atoms.copy()
        b.positions += t
        hkl2, F2, _ = build(b)
        if not np.array_equal(hkl2, hkl):
            bad("translation/hkl-grid", "translating by %s changes the hkl grid" % name)
            continue
        d = float(np.abs(F2 - F).max())
        worst = max(worst, d / (1e-5 * fmax))
        if d > 1e-5 * fmax:
            bad("translation/values", "translating all atoms by %s changes F by %.3g (max|F| %.3g)" % (name, d, fmax))
    return {"viol": viol, "obs": "%d reflections" % len(hkl), "tr": 6, "ref": len(hkl), "err": worst}
