"""C32 — API calls do not modify caller-owned inputs.

 A  atoms   structures {orthogonal SiC, atoms outside the cell, hexagonal 2-atom cell, fcc primitive cell, cell with tiny
            negative off-diagonal entries} x functions {orthogonalize_cell (ALL combinations of return_transform x
            allow_transform x plane x origin x box), standardize_cell, best_orthogonal_cell, rotate_atoms_to_plane, pad_atoms,
            cut_cell, shrink_cell, wrap_with_tolerance, merge_close_atoms, flip_atoms, Potential(...).build() (both projections,
            plane / origin / box), FrozenPhonons iteration, AtomsEnsemble, Potential of an AtomsEnsemble, StructureFactor.build(),
            BlochWaves(...), SliceIndexedAtoms / SlicedAtoms, CustomScan(positions array), GridScan(potential=...)}.
 M  methods every public method of every measurement class that returns an abTEM array object (found by introspection;
            arguments from a table; methods without a table entry are listed in the evidence as uncovered) x lazy/eager.
Oracle: deep snapshot (positions, cell, numbers, pbc, arrays, info / array bytes, metadata, axes metadata) before == after.
"""
import copy
import inspect
import itertools

import numpy as np

META = dict(
    engines=["product"],
    technique="exhaustive enumeration of structures x API entry points (all option combinations) and of all measurement methods (introspected); before/after snapshots",
    text="5 atomic structures x 19 API entry points (orthogonalize_cell with all 48 option combinations) and every public measurement method that "
         "returns a measurement (introspected for 6 classes, arguments from a table, lazy and eager) are called and a deep snapshot of the caller's "
         "input taken before is compared with one taken after. Each method is additionally called with the full product of an option alphabet (e.g. 5 scales x 3 shifts, 4 axis sets x keepdims).",
    note="Bound: the structure alphabet and one argument set per method. Methods without an argument-table entry are reported as uncovered in the evidence. "
         "A call that raises is an outcome (the snapshot is still compared).",
)
STRUCTS = ["ortho", "outside", "hexagonal", "fcc_primitive", "tiny_negative"]


def structure(name):
    import ase
    from ase.build import bulk

    if name == "ortho":
        return ase.Atoms("SiC", positions=[(0.5, 0.7, 1.0), (2.0, 1.5, 2.5)], cell=(4, 3, 4), pbc=True)
    if name == "outside":
        return ase.Atoms("SiC", positions=[(4.6, -0.7, 1.0), (2.0, 3.5, 4.5)], cell=(4, 3, 4), pbc=True)
    if name == "hexagonal":
        a = 2.46
        return ase.Atoms("C2", scaled_positions=[(0, 0, 0.5), (1 / 3, 2 / 3, 0.5)], cell=[[a, 0, 0], [-a / 2, a * np.sqrt(3) / 2, 0], [0, 0, 6.0]], pbc=True)
    if name == "fcc_primitive":
        return bulk("Au", "fcc", a=4.08)
    a = ase.Atoms("SiC", positions=[(0.5, 0.7, 1.0), (2.0, 1.5, 2.5)], cell=[[4, -1e-14, 0], [1e-15, 3, -1e-14], [0, 1e-15, 4]], pbc=True)
    return a


def atom_calls():
    import abtem
    from abtem import atoms as AT

    calls = {}
    for rt, at, plane, origin, box in itertools.product((False, True), (False, True), ("xy", "xz", ((1, 0, 0), (0, 1, 1))), ((0.0, 0.0, 0.0), (0.5, 0.25, 0.1)),
                                                         (None, (8.0, 6.0, 8.0))):
        calls["orthogonalize_cell[rt=%s,at=%s,plane=%s,origin=%s,box=%s]" % (rt, at, plane, origin != (0.0, 0.0, 0.0), box is not None)] = (
            lambda a, rt=rt, at=at, plane=plane, origin=origin, box=box: AT.orthogonalize_cell(a, return_transform=rt, allow_transform=at, plane=plane, origin=origin, box=box))
    calls["standardize_cell"] = lambda a: AT.standardize_cell(a)
    calls["best_orthogonal_cell"] = lambda a: AT.best_orthogonal_cell(a.cell)
    calls["rotate_atoms_to_plane"] = lambda a: AT.rotate_atoms_to_plane(a, "xz")
    calls["pad_atoms"] = lambda a: AT.pad_atoms(a, margins=1.0)
    calls["cut_cell"] = lambda a: AT.cut_cell(a, cell=(3.0, 3.0, 3.0), margin=0.5)
    calls["shrink_cell"] = lambda a: AT.shrink_cell(a)
    calls["wrap_with_tolerance"] = lambda a: AT.wrap_with_tolerance(a)
    calls["merge_close_atoms"] = lambda a: AT.merge_close_atoms(a)
    calls["flip_atoms"] = lambda a: AT.flip_atoms(a)
    for proj in ("infinite", "finite"):
        calls["Potential.build[%s]" % proj] = lambda a, proj=proj: abtem.Potential(a, sampling=0.25, projection=proj, slice_thickness=2.0).build(lazy=False)
    calls["Potential.build[plane,origin,box]"] = lambda a: abtem.Potential(a, sampling=0.3, plane="xz", origin=(0.3, 0.2, 0.1), box=(6.0, 6.0, 6.0), slice_thickness=2.0, periodic=False,
                                                                          projection="finite").build(lazy=False)
    calls["Potential.build[lazy]"] = lambda a: abtem.Potential(a, sampling=0.25, slice_thickness=2.0).build(lazy=True).compute()
    calls["PlaneWave.multislice(atoms)"] = lambda a: abtem.PlaneWave(energy=1e5, sampling=0.25).multislice(a, lazy=False)
    calls["FrozenPhonons.iterate"] = lambda a: list(abtem.FrozenPhonons(a, 2, 0.1, seed=(1, 2)))
    calls["FrozenPhonons.potential"] = lambda a: abtem.Potential(abtem.FrozenPhonons(a, 2, 0.1, seed=(1, 2)), sampling=0.25, slice_thickness=2.0).build(lazy=False)
    # FrozenPhonons option alphabet: how the displacements are specified (zero displacements included) x lazy x configurations
    sig = {"0.1": lambda a: 0.1, "0.0": lambda a: 0.0, "dict": lambda a: {s_: 0.05 for s_ in set(a.get_chemical_symbols())},
           "dict0": lambda a: {s_: 0.0 for s_ in set(a.get_chemical_symbols())}, "array": lambda a: np.full(len(a), 0.07), "array0": lambda a: np.zeros(len(a)),
           "aniso0": lambda a: np.zeros((len(a), 3))}
    for sname, lazy, ncfg in itertools.product(sig, (False, True), (1, 2)):
        def fp_call(a, sname=sname, lazy=lazy, ncfg=ncfg):
            pot = abtem.Potential(abtem.FrozenPhonons(a, ncfg, sig[sname](a), seed=(1, 2)[:ncfg]), sampling=0.25, slice_thickness=2.0).build(lazy=lazy)
            return pot.compute() if lazy else pot
        calls["FrozenPhonons.potential[sigmas=%s,lazy=%s,n=%d]" % (sname, lazy, ncfg)] = fp_call
    calls["AtomsEnsemble.potential"] = lambda a: None  # handled specially (two Atoms objects)
    calls["StructureFactor.build"] = lambda a: abtem.bloch.StructureFactor(a, g_max=2.0).build(lazy=False)
    calls["BlochWaves"] = lambda a: abtem.bloch.BlochWaves(a, energy=1e5, sg_max=0.1, g_max=2.0)
    calls["SliceIndexedAtoms"] = lambda a: [abtem.slicing.SliceIndexedAtoms(a, 2.0).get_atoms_in_slices(i) for i in range(2)]
    calls["SlicedAtoms"] = lambda a: [abtem.slicing.SlicedAtoms(a, 2.0).get_atoms_in_slices(i) for i in range(2)]
    calls["GridScan(potential=atoms)"] = lambda a: abtem.GridScan(start=(0, 0), end=(0.5, 0.5), fractional=True, potential=a, gpts=2).get_positions()
    return calls


def measurement_classes():
    return ["Images", "DiffractionPatterns", "RealSpaceLineProfiles", "ReciprocalSpaceLineProfiles", "PolarMeasurements", "MeasurementsEnsemble"]


ARGS = {
    "abs": {}, "real": {}, "imag": {}, "phase": {}, "intensity": {}, "copy": {}, "compute": {}, "ensure_lazy": {}, "to_cpu": {}, "reduce_ensemble": {},
    "squeeze": {}, "to_measurement_ensemble": {}, "normalize_ensemble": {}, "relative_difference": "other", "power": {"number": 2.0},
    "mean": {"axis": 0}, "sum": {"axis": 0}, "std": {"axis": 0}, "min": {"axis": 0}, "max": {"axis": 0}, "expand_dims": {}, "rechunk": None,
    "interpolate": {"sampling": 0.1}, "crop": None, "tile": {"repetitions": (2, 1)}, "gaussian_filter": {"sigma": 0.5}, "diffractograms": {},
    "poisson_noise": {"total_dose": 1e4, "seed": 1}, "integrate_gradient": None, "to_images": None,
    "block_direct": {"radius": 5.0}, "bandlimit": {"inner": 1.0, "outer": 30.0}, "center_of_mass": {}, "integrate_radial": {"inner": 1.0, "outer": 20.0},
    "integrated_center_of_mass": None, "polar_binning": {"nbins_radial": 3, "nbins_azimuthal": 2, "inner": 0.0, "outer": 20.0}, "radial_binning": {"step_size": 5.0, "inner": 0.0, "outer": 20.0},
    "gaussian_source_size": {"sigma": 0.3}, "integrate": {}, "interpolate_line": None, "interpolate_line_at_position": None, "azimuthal_average": {},
    "set_ensemble_axes_metadata": None, "apply_transform": None, "ensemble_blocks": None, "generate_blocks": None, "get_items": None, "to_zarr": None,
    "to_tiff": None, "to_hyperspy": None, "to_data_array": None, "show": None, "index_diffraction_spots": None, "width": None, "add_to_plot": None, "scale_intensity": None,
}


# option alphabets: every combination of the listed values is tried for the method (in addition to the ARGS entry)
OPTIONS = {
    "normalize_ensemble": {"scale": ["max", "min", "sum", "mean", "ptp"], "shift": ["mean", "min", "none"]},
    "mean": {"axis": [0, 1, (0, 1), None], "keepdims": [False, True]},
    "sum": {"axis": [0, 1, (0, 1), None], "keepdims": [False, True]},
    "std": {"axis": [0, (0, 1)], "keepdims": [False, True]},
    "min": {"axis": [0, (0, 1)], "keepdims": [False, True]},
    "max": {"axis": [0, (0, 1)], "keepdims": [False, True]},
    "squeeze": {"axis": [None, (0,)]},
    "expand_dims": {"axis": [None, 0, (0, 1)]},
    "gaussian_filter": {"sigma": [0.5, (0.3, 0.6)], "boundary": ["periodic", "reflect", "constant"]},
    "interpolate": {"sampling": [0.1, (0.1, 0.15)], "method": ["fft", "spline"], "normalization": ["values", "intensity"]},
    "poisson_noise": {"total_dose": [1e4, [1e3, 1e4]], "samples": [1, 2], "seed": [1]},
    "power": {"number": [2.0, 0.5, 1.0]},
    "relative_difference": {"min_relative_tol": [0.0, 0.1]},
    "block_direct": {"radius": [None, 5.0], "margin": [None, True]},
    "bandlimit": {"inner": [0.0, 1.0], "outer": [30.0, float("inf")]},
    "center_of_mass": {"units": ["1/Å", "mrad"]},
    "integrate_radial": {"inner": [0.0, 1.0], "outer": [20.0], "offset": [(0.0, 0.0), (1.0, -2.0)]},
    "polar_binning": {"nbins_radial": [3], "nbins_azimuthal": [1, 2], "inner": [0.0], "outer": [20.0], "rotation": [0.0, 0.3], "offset": [(0.0, 0.0), (1.0, 0.0)]},
    "radial_binning": {"step_size": [5.0], "inner": [0.0, 5.0], "outer": [20.0]},
    "gaussian_source_size": {"sigma": [0.3, (0.2, 0.4)]},
    "integrate": {"radial_limits": [None, (0.0, 10.0)], "azimuthal_limits": [None], "detector_regions": [None, (0, 1)]},
    "azimuthal_average": {"max_angle": [None, 10.0], "radial_sampling": [1.0, 2.0], "weighting_function": ["step", "gaussian"]},
    "tile": {"repetitions": [(2, 1), (1, 3)]},
    "ensure_lazy": {"chunks": ["auto", 1]},
}


def option_sets(method):
    opts = OPTIONS.get(method)
    if not opts:
        return []
    keys = list(opts)
    return [dict(zip(keys, vals)) for vals in itertools.product(*[opts[k] for k in keys])]


def make_measurement(cls, lazy, complex_=False):
    import abtem
    from abtem import measurements as M
    from abtem.core.axes import ScanAxis
    from mc.compare import rng

    axes = [ScanAxis(label="x", sampling=0.5, units="Å"), ScanAxis(label="y", sampling=0.4, units="Å")]
    r = rng("c32", cls)
    base = {"Images": (8, 6), "DiffractionPatterns": (9, 9), "RealSpaceLineProfiles": (7,), "ReciprocalSpaceLineProfiles": (7,), "PolarMeasurements": (4, 3), "MeasurementsEnsemble": ()}[cls]
    arr = r.uniform(0.1, 1.0, size=(2, 3) + base).astype(np.float32)
    if complex_:
        arr = (arr + 1j * r.uniform(0.1, 1.0, size=arr.shape)).astype(np.complex64)
    md = {"label": "original-label", "units": "original-units", "energy": 1e5, "semiangle_cutoff": 10.0}
    if cls == "Images":
        o = abtem.Images(arr, sampling=(0.2, 0.25), ensemble_axes_metadata=axes, metadata=md)
    elif cls == "DiffractionPatterns":
        o = M.DiffractionPatterns(arr, sampling=(0.05, 0.05), ensemble_axes_metadata=axes, metadata=md)
    elif cls == "RealSpaceLineProfiles":
        o = M.RealSpaceLineProfiles(arr, sampling=0.2, ensemble_axes_metadata=axes, metadata=md)
    elif cls == "ReciprocalSpaceLineProfiles":
        o = M.ReciprocalSpaceLineProfiles(arr, sampling=0.2, ensemble_axes_metadata=axes, metadata=md)
    elif cls == "PolarMeasurements":
        o = M.PolarMeasurements(arr, radial_sampling=5.0, azimuthal_sampling=2 * np.pi / 3, ensemble_axes_metadata=axes, metadata=md)
    else:
        o = M.MeasurementsEnsemble(arr, ensemble_axes_metadata=axes, metadata=md)
    return o.ensure_lazy() if lazy else o


def public_methods(cls):
    from abtem import measurements as M
    import abtem

    klass = getattr(M, cls, None) or getattr(abtem, cls)
    out = []
    for name, member in inspect.getmembers(klass):
        if name.startswith("_") or not callable(member) or isinstance(inspect.getattr_static(klass, name), (staticmethod, classmethod, property)):
            continue
        out.append(name)
    return out


def check(ctx):
    A = [{"space": "A", "struct": s, "call": name} for s in STRUCTS for name in atom_calls()]
    A += [{"space": "A", "struct": "array", "call": "CustomScan(array)"}]
    Mc = []
    uncovered = set()
    for cls in measurement_classes():
        for m in public_methods(cls):
            if m not in ARGS or ARGS[m] is None:
                uncovered.add("%s.%s" % (cls, m))
                continue
            for lazy in (False, True):
                for cplx in ((False, True) if m in ("abs", "real", "imag", "phase", "intensity") and cls in ("Images", "MeasurementsEnsemble", "RealSpaceLineProfiles") else (False,)):
                    Mc.append({"space": "M", "cls": cls, "method": m, "lazy": lazy, "complex": cplx})
                for k, _ in enumerate(option_sets(m)):
                    if ctx.quick and lazy and m not in ("normalize_ensemble", "poisson_noise", "gaussian_filter"):
                        continue
                    Mc.append({"space": "M", "cls": cls, "method": m, "lazy": lazy, "complex": False, "opt": k})
    ctx.extra["uncovered_measurement_methods"] = sorted(uncovered)
    ctx.run(A, "run_case", rule="A: (structure, entry point with options)", space="A atoms")
    ctx.run(Mc, "run_case", rule="M: (class, method, lazy[, complex]); non-trivial = the call succeeded", space="M measurement methods")


def snap_measurement(o):
    from mc.compare import axes_dicts

    a = np.asarray(o.compute().array if o.is_lazy else o.array)
    return a.tobytes(), a.shape, str(a.dtype), copy.deepcopy(dict(o.metadata)), axes_dicts(o)


def run_case(c):
    from mc.compare import atoms_equal, snapshot_atoms

    viol = []

    def bad(key, msg):
        viol.append({"key": key, "msg": "%s (%s)" % (msg, c)})

    if c["space"] == "A":
        if c["call"] == "CustomScan(array)":
            import abtem

            pos = np.array([[0.1, 0.2], [1.0, 2.0], [3.0, 0.5]])
            before = pos.copy()
            sc = abtem.CustomScan(pos)
            probe = abtem.Probe(semiangle_cutoff=20, energy=1e5, gpts=(8, 8), extent=4)
            probe.build(sc, lazy=False)
            sc.get_positions()[:] = 0  # writing into what the scan hands out must not reach the caller's array
            if not np.array_equal(pos, before):
                bad("array/CustomScan-positions", "the caller's positions array changed")
            return {"viol": viol, "obs": "ok"}
        a = structure(c["struct"])
        if c["call"] == "AtomsEnsemble.potential":
            import abtem

            b = a.copy()
            b.positions[:, 0] += 0.1
            s1, s2 = snapshot_atoms(a), snapshot_atoms(b)
            try:
                abtem.Potential(abtem.AtomsEnsemble([a, b]), sampling=0.25, slice_thickness=2.0).build(lazy=False)
                out = "ok"
            except Exception as e:  # noqa: BLE001
                out = "raises:" + type(e).__name__
            if not atoms_equal(s1, snapshot_atoms(a)) or not atoms_equal(s2, snapshot_atoms(b)):
                bad("atoms/AtomsEnsemble.potential", "building a potential from an AtomsEnsemble changed the caller's Atoms")
            return {"viol": viol, "obs": out, "nt": out == "ok"}
        before = snapshot_atoms(a)
        f = atom_calls()[c["call"]]
        try:
            f(a)
            out = "ok"
        except Exception as e:  # noqa: BLE001
            out = "raises:" + type(e).__name__
        after = snapshot_atoms(a)
        if not atoms_equal(before, after):
            what = []
            if not np.array_equal(before[0], after[0]):
                what.append("positions (max |d| %.3g)" % float(np.abs(before[0] - after[0]).max()))
            if not np.array_equal(before[1], after[1]):
                what.append("cell")
            if not np.array_equal(before[3], after[3]):
                what.append("pbc")
            name = c["call"].split("[")[0]
            bad("atoms/%s" % name, "%s changed the caller's %s (outcome %s)" % (c["call"], ", ".join(what) or "arrays/info", out))
        return {"viol": viol, "obs": out, "nt": out == "ok"}
    # ---------------------------------------------------------------------------------------------- measurement methods
    o = make_measurement(c["cls"], c["lazy"], c.get("complex", False))
    before = snap_measurement(o)
    args = ARGS[c["method"]]
    if args == "other":
        args = {"other": make_measurement(c["cls"], c["lazy"], c.get("complex", False))}
    if c.get("opt") is not None:
        args = dict(args, **{k: (tuple(v) if isinstance(v, list) and k in ("axis", "sigma", "sampling", "offset", "repetitions", "radial_limits", "detector_regions") else v)
                             for k, v in option_sets(c["method"])[c["opt"]].items()})
    try:
        r = getattr(o, c["method"])(**args)
        if hasattr(r, "compute") and getattr(r, "is_lazy", False):
            r.compute()
        out = "ok"
    except Exception as e:  # noqa: BLE001
        out = "raises:" + type(e).__name__
    after = snap_measurement(o)
    if before[:3] != after[:3]:
        bad("measurement/array/%s" % c["method"], "%s.%s changed the receiver's array" % (c["cls"], c["method"]))
    if before[3] != after[3]:
        diff = {k: (before[3].get(k), after[3].get(k)) for k in set(before[3]) | set(after[3]) if before[3].get(k) != after[3].get(k)}
        bad("measurement/metadata/%s" % c["method"], "%s.%s changed the receiver's metadata: %r" % (c["cls"], c["method"], diff))
    if before[4] != after[4]:
        bad("measurement/axes/%s" % c["method"], "%s.%s changed the receiver's axes metadata" % (c["cls"], c["method"]))
    return {"viol": viol, "obs": out, "nt": out == "ok"}
