"""C40 — centre of mass and integrated gradients are exact on analytic inputs.

Space: pattern shapes {(5,5), (6,6), (5,6), (8,7)} x sampling {0.1, (0.1, 0.25)} x fftshift {T, F} x units {1/A, mrad} x EVERY
single-pixel position (intensity 1 and 2.5) + seeded non-negative patterns x ensembles {none, line(3), scan 2x3} x lazy;
gradient fields of EVERY band-limited Fourier mode (p, q) != 0 and seeded mixtures on grids {(8,8), (9,6)} with anisotropic
sampling.
Oracle: COM == sum(I k) / sum(I) with k from fftfreq in the layout the object declares; integrate_gradient(grad f) - f is
constant (max - min <= 1e-5 range).
"""
import itertools

import numpy as np

META = dict(
    engines=["product"],
    technique="exhaustive enumeration of every single-pixel pattern / every Fourier mode on small grids x layouts x units; closed-form reference",
    text="For 4 pattern shapes (odd/even mixes), 2 samplings, both layouts and both units, the centre of mass of every single-pixel pattern (two "
         "intensities) and of seeded patterns, for three ensemble shapes and lazy/eager, is compared with the intensity-weighted mean frequency; "
         "every sequence of up to 2 (thorough: 3) requests out of 7 (centre of mass in either unit, coordinates, angular coordinates, limits, angular limits, axes metadata) is issued on ONE object before a final centre of mass, which must equal the fresh answer; the gradient of every non-constant band-limited Fourier mode of two grids is integrated and compared with the generating field. Lazy gradient images are cut into 1 or 2 dask blocks per image axis in every way and into 3 blocks along y.",
    note="Bound: patterns <= 8x7, grids <= 9x8. Tolerance 1e-5 relative (float32). Normalisation by the total intensity is part of the statement "
         "('intensity-weighted mean').",
)
SHAPES = [(5, 5), (6, 6), (5, 6), (8, 7)]
SAMPLINGS = [(0.1, 0.1), (0.1, 0.25)]


def check(ctx):
    cases = []
    for sh, sa, shift, units, ens, lazy in itertools.product(range(len(SHAPES)), range(len(SAMPLINGS)), (True, False), ("1/Å", "mrad"),
                                                             ("none", "line", "scan"), (False, True)):
        if ctx.quick and lazy and ens != "scan":
            continue
        cases.append({"kind": "com", "shape": sh, "samp": sa, "shift": shift, "units": units, "ens": ens, "lazy": lazy})
    depth = 2 if ctx.quick else 3
    for sh, shift in itertools.product(range(len(SHAPES)), (True, False)):
        cases.append({"kind": "requests", "shape": sh, "samp": 1, "shift": shift, "depth": depth})
    for g, lazy in itertools.product(range(2), (False, True)):
        cases.append({"kind": "grad", "g": g, "lazy": lazy})
    ctx.run(cases, "run_case", rule="com: per (shape, sampling, layout, units, ensemble, lazy) every single-pixel pattern x 2 intensities + 2 seeded patterns; "
            "grad: per grid every band-limited mode; non-trivial = all")


def freq(n, d, shift):
    k = np.fft.fftfreq(n, d=1.0) / (n * d) * n  # = fftfreq(n) / d ... written out: index / (n d)
    k = np.fft.fftfreq(n) / d
    return np.fft.fftshift(k) if shift else k


def run_case(c):
    import abtem
    from abtem.core.axes import ScanAxis
    from abtem.measurements import DiffractionPatterns, Images
    from mc.compare import rng
    from mc.ref.chi import wavelength

    viol, worst, tr = [], 0.0, 0

    def bad(key, msg):
        if sum(1 for v in viol if v["key"] == key) < 2:
            viol.append({"key": key, "msg": "%s (%s)" % (msg, c)})

    if c["kind"] == "requests":
        # ONE DiffractionPatterns object is asked several things in a row (every sequence of <= depth requests out of 7, then a centre of
        # mass in either unit): the answer must be what a fresh object gives
        n, m = SHAPES[c["shape"]]
        sx, sy = SAMPLINGS[c["samp"]]
        E = 100e3
        lam = wavelength(E)
        kx = np.fft.fftfreq(n) * n * sx
        ky = np.fft.fftfreq(m) * m * sy
        if c["shift"]:
            kx, ky = np.fft.fftshift(kx), np.fft.fftshift(ky)
        p = np.zeros((n, m), np.float32)
        p[1, m - 2] = 2.0
        p[n - 1, 0] = 0.5
        p[2, 1] = 1.25
        p /= p.sum()  # unit total: this space is about the object's memory, not about the normalisation (a separate, listed finding)
        p64 = p.astype(np.float64)
        want1 = ((p64 * kx[:, None]).sum() + 1j * (p64 * ky[None]).sum()) / p64.sum()
        REQ = {
            "com_A": lambda d: d.center_of_mass(units="1/Å"),
            "com_mrad": lambda d: d.center_of_mass(units="mrad"),
            "angular_coordinates": lambda d: d.angular_coordinates,
            "coordinates": lambda d: d.coordinates,
            "angular_limits": lambda d: d.angular_limits,
            "limits": lambda d: d.limits,
            "axes_metadata": lambda d: d.axes_metadata,
        }
        names = list(REQ)
        nseq = 0
        for L in range(0, c["depth"] + 1):
            for seq in itertools.product(names, repeat=L):
                for last, scale in (("com_A", 1.0), ("com_mrad", lam * 1e3)):
                    dp = DiffractionPatterns(p.copy(), sampling=(sx, sy), fftshift=c["shift"], metadata={"energy": E})
                    for r_ in seq:
                        REQ[r_](dp)
                    out = REQ[last](dp)
                    got = complex(np.asarray(out.array if hasattr(out, "array") else out).ravel()[0])
                    tr += 1 + L
                    nseq += 1
                    e = abs(got - want1 * scale) / (max(abs(kx).max(), abs(ky).max()) * scale)
                    worst = max(worst, e / 1e-5)
                    if not e <= 1e-5:
                        bad("com/after-earlier-requests", "%s after the requests %r on the same object gives %r, intensity-weighted mean %r" % (last, list(seq), got, want1 * scale))
                    lim = dp.limits
                    wl = [(float(kx.min()), float(kx.max())), (float(ky.min()), float(ky.max()))]
                    if not np.allclose(np.array(lim, float), np.array(wl), rtol=1e-6, atol=1e-9):
                        bad("limits/after-earlier-requests", "limits after %r + %s are %r, expected %r" % (list(seq), last, lim, wl))
        return {"viol": viol, "obs": "%d request sequences" % nseq, "tr": tr, "ref": nseq, "err": worst}
    if c["kind"] == "com":
        n, m = SHAPES[c["shape"]]
        sx, sy = SAMPLINGS[c["samp"]]  # reciprocal-space sampling of the pattern [1/A]
        E = 100e3
        lam = wavelength(E)
        kx = np.fft.fftfreq(n) * n * sx
        ky = np.fft.fftfreq(m) * m * sy
        if c["shift"]:
            kx, ky = np.fft.fftshift(kx), np.fft.fftshift(ky)
        scale = lam * 1e3 if c["units"] == "mrad" else 1.0
        eshape = {"none": (), "line": (3,), "scan": (2, 3)}[c["ens"]]
        axes = {"none": [], "line": [ScanAxis(label="x", sampling=0.5, units="Å")],
                "scan": [ScanAxis(label="x", sampling=0.5, units="Å"), ScanAxis(label="y", sampling=0.4, units="Å")]}[c["ens"]]
        r = rng("c40", c["shape"], c["ens"])
        patterns = []
        for i, j in itertools.product(range(n), range(m)):
            for inten in (1.0, 2.5):
                p = np.zeros(eshape + (n, m), np.float32)
                p[..., i, j] = inten
                patterns.append(("pixel(%d,%d)x%.1f" % (i, j, inten), p, "unit" if inten == 1.0 else "scaled"))
        for s in range(2):
            patterns.append(("seeded%d" % s, r.random(size=eshape + (n, m)).astype(np.float32), "seeded"))
        for name, p, kind in patterns:
            dp = DiffractionPatterns(p.copy(), sampling=(sx, sy), fftshift=c["shift"], ensemble_axes_metadata=axes, metadata={"energy": E})
            if c["lazy"]:
                dp = dp.ensure_lazy()
            out = dp.center_of_mass(units=c["units"])
            out = out.compute() if hasattr(out, "compute") and getattr(out, "is_lazy", False) else out
            got = np.asarray(out.array if hasattr(out, "array") else out)
            tr += 1
            p64 = p.astype(np.float64)
            tot = p64.sum(axis=(-2, -1))
            want = ((p64 * kx[:, None]).sum(axis=(-2, -1)) + 1j * (p64 * ky[None]).sum(axis=(-2, -1))) / tot * scale
            if got.shape != want.shape:
                bad("com/shape", "%s: COM shape %r, expected %r" % (name, got.shape, want.shape))
                continue
            ref_scale = max(abs(kx).max(), abs(ky).max()) * scale
            e = float(np.abs(got - want).max()) / ref_scale
            worst = max(worst, e / 1e-5)
            if not e <= 1e-5:
                unnorm = ((p64 * kx[:, None]).sum(axis=(-2, -1)) + 1j * (p64 * ky[None]).sum(axis=(-2, -1))) * scale
                if float(np.abs(got - unnorm).max()) / ref_scale <= 1e-5:
                    key = "com/not-normalised-by-total-intensity"
                else:
                    key = "com/wrong-coordinates/%s" % ("shifted" if c["shift"] else "unshifted")
                bad(key, "%s: COM %r, intensity-weighted mean frequency %r" % (name, np.ravel(got)[0], np.ravel(want)[0]))
        return {"viol": viol, "obs": "ok" if not viol else viol[0]["key"], "tr": tr, "ref": tr, "err": worst}
    # ---------------------------------------------------------------------------------------------- gradients
    gp, samp = [((8, 8), (0.25, 0.4)), ((9, 6), (0.3, 0.2))][c["g"]]
    n, m = gp
    x = np.arange(n)[:, None] * samp[0]
    y = np.arange(m)[None] * samp[1]
    Lx, Ly = n * samp[0], m * samp[1]
    fields = []
    for p, q in itertools.product(range(-(n - 1) // 2, (n - 1) // 2 + 1), range(-(m - 1) // 2, (m - 1) // 2 + 1)):
        if (p, q) == (0, 0) or 2 * abs(p) >= n or 2 * abs(q) >= m:
            continue
        ph = 2 * np.pi * (p * x / Lx + q * y / Ly)
        for kind in ("cos", "sin"):
            f = np.cos(ph) if kind == "cos" else np.sin(ph)
            dfx = (-np.sin(ph) if kind == "cos" else np.cos(ph)) * 2 * np.pi * p / Lx
            dfy = (-np.sin(ph) if kind == "cos" else np.cos(ph)) * 2 * np.pi * q / Ly
            fields.append(("%s(%d,%d)" % (kind, p, q), f, dfx + 1j * dfy))
    r = rng("c40g", c["g"])
    mix_f = sum(r.normal() * f for _, f, _ in fields[:12])
    mix_g = sum(w * g for w, (_, _, g) in zip(rng("c40g", c["g"]).normal(size=12), fields[:12]))
    fields.append(("mixture", mix_f, mix_g))
    for name, f, g in fields:
        variants = [(None, "eager")]
        if c["lazy"]:
            # every way of cutting the image into 1 or 2 dask blocks per axis (incl. uneven cuts), and 3 blocks along one axis
            cx = [(n,)] + [(k, n - k) for k in (1, n // 2, n - 2) if 0 < k < n]
            cy = [(m,)] + [(k, m - k) for k in (1, m // 2, m - 2) if 0 < k < m]
            variants = [((a, b), "lazy chunks %r x %r" % (a, b)) for a in cx for b in cy] + [(((n,), (m // 3, m // 3, m - 2 * (m // 3))), "lazy 3 blocks along y")]
            if name != "mixture" and not name.startswith("cos(1,") and not name.startswith("sin(0,1"):
                variants = variants[:1] + variants[-1:]  # the full chunking alphabet for a few fields, the extremes for every field
        for chunks, label in variants:
            img = Images(g.astype(np.complex64), sampling=samp)
            if chunks is not None:
                img = img.ensure_lazy().rechunk(chunks)
            out = img.integrate_gradient()
            out = out.compute() if chunks is not None else out
            got = np.asarray(out.array, dtype=np.float64)
            tr += 1
            d = got - f
            spread = float(d.max() - d.min()) / float(f.max() - f.min())
            worst = max(worst, spread / 1e-4)
            if not spread <= 1e-4:
                bad("gradient/not-recovered" + ("/lazy-base-chunks" if chunks is not None and (len(chunks[0]) > 1 or len(chunks[1]) > 1) else ""),
                    "%s (%s): integrate_gradient(grad f) - f varies by %.3g of the range of f" % (name, label, spread))
    return {"viol": viol, "obs": "%d fields" % len(fields), "tr": tr, "ref": tr, "err": worst}
