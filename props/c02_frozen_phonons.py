"""C02 — a frozen-phonon ensemble equals independent per-configuration simulations.

 A  members   FrozenPhonons(n in 1..3, 3 sigma kinds, 3 direction sets, 2 seed tuples, mean T/F) and AtomsEnsemble(2, 3)
              x builder x detector x exit planes x scan x {eager, lazy}.  Reference: the displaced Atoms of
              configuration k are taken from iterating the ensemble, a plain Potential(atoms_k) is simulated eagerly
              from the same builder; member k must equal it (2e-5) and with ensemble_mean the result must equal the
              arithmetic mean of the references.
 B  seeds     the displaced configurations are a function of the seeds alone: identical for EVERY chunking of the
              ensemble (all compositions, eager generate_blocks and lazy ensemble_blocks), after to_atoms_ensemble(),
              when configuration k is generated alone from seed=(seed_k,), and in any processing order.
"""
import itertools

import numpy as np

META = dict(
    engines=["product", "bfs"],
    technique="exhaustive enumeration of ensemble parameters, all chunkings and processing orders; differential oracle against independent single-configuration runs",
    text="All combinations of configuration count (1-3), displacement spec (scalar / per-element / anisotropic), directions, seeds, ensemble_mean, "
         "builder, detector, exit planes, scan and evaluation mode are simulated and every member is compared with an independent eager simulation "
         "of that single displaced configuration; the configurations themselves are compared across every composition-chunking, lazy/eager "
         "partitioning, single-seed regeneration and all processing orders. Five ensembles of one structure that differ only in seeds / displacement spec are evaluated together in every subset (one dask.compute call) and each must equal its own separate evaluation. A breadth-first search over use histories (7 kinds of use, depth 3 / 4, never merged) of one ensemble + potential object pair requires every use to give what a fresh object gives.",
    note="Bound: <= 3 configurations, 2 atoms, 16x12 grid, 2 slices. Tolerance 2e-5 (float32, different batch shapes). The reference uses abTEM's own "
         "Potential on the displaced atoms, so only the ensemble mechanism is under test.",
)
RTOL = 2e-5
SIGMAS = {"scalar": 0.1, "element": {"Si": 0.1, "C": 0.05}, "aniso": (0.1, 0.05, 0.02)}
SEEDS = [(1, 2, 3), (11, 7, 5)]


HEVENTS = ["iterate", "build-eager", "build-lazy", "multislice-eager", "multislice-lazy", "blocks", "to_atoms_ensemble"]


def _h_observe(state, ev):
    """one real use of the (ensemble, potential) pair; returns a digestible observation"""
    import abtem
    from mc import universe as U

    ens, pot = state["ens"], state["pot"]
    if ev == "iterate":
        return np.stack([np.asarray(a.atoms.positions if hasattr(a, "atoms") else a.positions) for a in ens])
    if ev == "build-eager":
        return np.asarray(pot.build(lazy=False).array)
    if ev == "build-lazy":
        return np.asarray(pot.build(lazy=True).compute().array)
    if ev in ("multislice-eager", "multislice-lazy"):
        lazy = ev.endswith("lazy")
        out = U.builder("probe").multislice(pot, scan=U.scan("custom"), detectors=U.detector("pix"), lazy=lazy, **({"max_batch": 2} if lazy else {}))
        return np.asarray((out.compute() if lazy else out).array)
    if ev == "blocks":
        return np.stack([np.asarray(list(b.item() if hasattr(b, "item") and not hasattr(b, "ensemble_shape") else b)[0].positions) for _, _, b in ens.generate_blocks(1)])
    return np.stack([np.asarray(a.positions) for a in ens.to_atoms_ensemble()]) if hasattr(ens, "to_atoms_ensemble") else np.zeros(1)


def run_history(c):
    import abtem
    from mc import universe as U
    from mc.bfs import bfs

    def fresh():
        ens = make_ensemble({"kind": c["kind"], "n": c["n"], "sigma": "scalar", "dir": "xyz", "seed": 0, "mean": False})
        return {"ens": ens, "pot": abtem.Potential(ens, gpts=U.GPTS, slice_thickness=2.0), "hist": []}

    ref = {}

    def fresh_obs(ev):
        if ev not in ref:
            try:
                ref[ev] = _h_observe(fresh(), ev)
            except Exception as e:  # noqa: BLE001
                ref[ev] = "raises:" + type(e).__name__
        return ref[ev]

    def apply(s, ev):
        try:
            s["last"] = _h_observe(s, ev)
        except Exception as e:  # noqa: BLE001
            s["last"] = "raises:" + type(e).__name__
        s["hist"].append(ev)
        return "ok" if not isinstance(s["last"], str) else s["last"]

    def enabled(s):
        return HEVENTS if s["hist"] else [HEVENTS[c["first"]]]

    def canon(s):
        return tuple(s["hist"])

    def check(s, hist, ev, info, pre):
        want, got = fresh_obs(ev), s["last"]
        if isinstance(want, str) or isinstance(got, str):
            if not (isinstance(want, str) and isinstance(got, str) and want == got):
                return [("history/outcome/" + ev, "%s after %r: %s, on a fresh object: %s" % (ev, list(hist), got if isinstance(got, str) else "ok", want if isinstance(want, str) else "ok"))]
            return []
        if got.shape != want.shape:
            return [("history/shape/" + ev, "%s after %r has shape %r, on a fresh object %r" % (ev, list(hist), got.shape, want.shape))]
        d = float(np.abs(got - want).max())
        if d > RTOL * max(float(np.abs(want).max()), 1e-30):
            return [("history/values/" + ev, "%s after %r differs from the same use of a fresh object by %.3g (max %.3g)" % (ev, list(hist), d, float(np.abs(want).max())))]
        return []

    res = bfs(fresh, apply, enabled, canon, check, c["depth"])
    viol, seen = [], set()
    for key, msg, hist in res["violations"]:
        if key not in seen:
            seen.add(key)
            viol.append({"key": key, "msg": "%s (%s)" % (msg, c)})
    return {"viol": viol, "obs": "%d histories %s" % (len(res["states"]), sorted(res["infos"].items())), "st": len(res["states"]), "tr": res["transitions"], "ref": res["transitions"], "nt": True}


def make_ensemble(c):
    import abtem
    from mc import universe as U

    if c["kind"] == "fp":
        return abtem.FrozenPhonons(U.atoms("A1"), c["n"], SIGMAS[c["sigma"]], directions=c["dir"], seed=tuple(SEEDS[c["seed"]][: c["n"]]),
                                   ensemble_mean=c["mean"])
    base = abtem.FrozenPhonons(U.atoms("A1"), c["n"], 0.1, seed=tuple(SEEDS[c["seed"]][: c["n"]]))
    return abtem.AtomsEnsemble(list(base), ensemble_mean=c["mean"])


def check(ctx):
    q = ctx.quick
    A = []
    ens = []
    for n, sg, dr in itertools.product((1, 2, 3), SIGMAS, ("xyz", "xy", "z")):
        ens.append({"kind": "fp", "n": n, "sigma": sg, "dir": dr, "seed": 0})
    ens += [{"kind": "fp", "n": 2, "sigma": "scalar", "dir": "xyz", "seed": 1}, {"kind": "ae", "n": 2, "seed": 0}, {"kind": "ae", "n": 3, "seed": 1}]
    # every ensemble with one pipeline ...
    for e in ens:
        for mean in (False, True):
            for lazy in (False, True):
                A.append(dict(e, mean=mean, b="probe", d="pix", ep=None, s="custom", lazy=lazy))
    # ... and one ensemble with every pipeline
    dets = ["waves", "annular", "pix", "flex"] if q else ["waves", "annular", "pix", "flex", "seg", "multi"]
    for b, d, ep, s in itertools.product(["probe", "pw"], dets, [None, 1], ["custom", "grid"]):
        if b == "pw" and s != "custom":
            continue
        for e in ([ens[13]] if q else [ens[13], ens[-2], ens[-1], ens[26]]):
            for mean in (False, True):
                for lazy in (False, True):
                    A.append(dict(e, mean=mean, b=b, d=d, ep=ep, s=("none" if b == "pw" else s), lazy=lazy))
    ctx.run(A, "run_members", rule="A: (ensemble spec, mean, builder, detector, exit planes, scan, lazy); non-trivial = at least 2 configurations",
            space="A members")
    B = [dict(e) for e in ens]
    ctx.run(B, "run_seeds", rule="B: per ensemble spec all compositions of the ensemble axis x {eager blocks, lazy blocks}, single-seed regeneration, "
            "reversed order, to_atoms_ensemble", space="B seeds")
    # P: the same statement for the PRISM route: an S-matrix built from the ensemble and reduced must equal the per-configuration S-matrix runs
    P = [{"kind": k, "n": n, "sigma": "scalar", "dir": "xyz", "seed": 0, "mean": False, "interp": ip, "route": r}
         for k, n in (("fp", 2), ("fp", 3), ("ae", 2)) for ip in (1, 2) for r in ("build-eager-reduce", "reduce-eager", "reduce-lazy", "build-lazy-compute-reduce")]
    ctx.run(P, "run_prism", rule="P: PRISM (interpolation 1, 2) x 4 build / reduce routes vs per-configuration S-matrix runs", space="P prism")
    J = [{"route": r} for r in ("potential", "pw", "probe")]
    ctx.run(J, "run_joint", rule="J: per route all 26 subsets (size >= 2) of 5 ensembles of the same structure (3 seed tuples, 2 displacement specs, one repeat) in one dask.compute call", space="J joint graphs", batch=1)
    # H: histories on ONE FrozenPhonons + Potential object pair: whatever was done with it before (iterated, built eagerly / lazily, used in
    # an eager or lazy multislice, partitioned), the next use gives what a fresh object gives
    H = [{"kind": kind, "n": n, "first": f, "depth": 3 if q else 4} for kind in ("fp", "ae") for n in (2, 3) for f in range(len(HEVENTS))]
    ctx.run(H, "run_history", rule="H: BFS over all sequences of %d uses of one ensemble object (depth 3 quick / 4 thorough), never merged" % len(HEVENTS), space="H object histories")



JOINT_MEMBERS = [("scalar", (1, 2)), ("scalar", (11, 7)), ("scalar", (5, 6)), ("element", (1, 2)), ("scalar", (1, 2))]  # the last repeats the first


def run_joint(c):
    """Several frozen-phonon ensembles of the SAME structure (different seeds / displacement specs) evaluated in ONE dask.compute call:
    every subset of size >= 2; each ensemble must come out as it does when computed on its own (which space A ties to the independent runs)."""
    import abtem
    import dask
    from mc import universe as U

    def lazy_obj(i):
        sg, seed = JOINT_MEMBERS[i]
        fp = abtem.FrozenPhonons(U.atoms("A1"), len(seed), SIGMAS[sg], seed=seed)
        pot = abtem.Potential(fp, gpts=U.GPTS, slice_thickness=2.0)
        if c["route"] == "potential":
            return pot.build(lazy=True)
        if c["route"] == "pw":
            return abtem.PlaneWave(energy=100e3).multislice(pot, lazy=True)
        return abtem.Probe(energy=100e3, semiangle_cutoff=20).multislice(pot, scan=U.scan("custom"), detectors=U.detector("pix"), lazy=True)

    n = len(JOINT_MEMBERS)
    alone = [np.asarray(lazy_obj(i).compute().array) for i in range(n)]
    viol, worst, tr, distinct = [], 0.0, n, 0
    for i, j in itertools.combinations(range(n - 1), 2):
        distinct += int(float(np.abs(alone[i] - alone[j]).max()) > 1e-3 * float(np.abs(alone[i]).max()))
    for r in range(2, n + 1):
        for sub in itertools.combinations(range(n), r):
            got = dask.compute(*[lazy_obj(i).array for i in sub])
            tr += 1
            for i, g in zip(sub, got):
                g = np.asarray(g)
                e = float(np.abs(g - alone[i]).max()) / float(np.abs(alone[i]).max()) if g.shape == alone[i].shape else np.inf
                worst = max(worst, e / RTOL)
                if not e <= RTOL and not any(v["key"].startswith("joint/") for v in viol):
                    viol.append({"key": "joint/%s" % c["route"], "msg": "ensembles %r evaluated in one dask.compute: ensemble %d (sigma %s, seeds %r) differs from its own separate evaluation by %.3g relative (%s)" % (
                        [JOINT_MEMBERS[k] for k in sub], i, JOINT_MEMBERS[i][0], JOINT_MEMBERS[i][1], e, c)})
    return {"viol": viol, "obs": "%d distinct pairs" % distinct, "nt": distinct >= 3, "tr": tr, "ref": tr, "err": worst}


def run_members(c):
    import abtem
    from mc import universe as U

    ens = make_ensemble(c)
    configs = list(make_ensemble(c))  # displaced Atoms, taken from a separate but identical ensemble object
    kw = dict(gpts=U.GPTS, slice_thickness=2.0, exit_planes=c["ep"])
    det = lambda: U.detector(c["d"])  # noqa: E731
    got = U.simulate(c["b"], abtem.Potential(ens, **kw), det(), U.scan(c["s"]), c["lazy"], 2)
    refs = [U.simulate(c["b"], abtem.Potential(a, **kw), det(), U.scan(c["s"]), False) for a in configs]
    viol, worst = [], 0.0
    tag = "%s/%s" % (c["kind"], "mean" if c["mean"] else "members")
    from mc.compare import err

    for i, g in enumerate(got):
        garr = np.asarray(g.array)
        rarr = np.stack([np.asarray(r[i].array) for r in refs])
        averaged = c["mean"] and type(g).__name__ != "Waves"  # exit waves keep the configuration axis (no coherent average)
        want = rarr.mean(axis=0) if averaged else rarr
        if garr.shape != want.shape:
            viol.append({"key": "shape/" + tag, "msg": "output %d (%s): shape %r, expected %r (%s)" % (i, type(g).__name__, garr.shape, want.shape, c)})
            continue
        e = err(garr, want, RTOL, atol=1e-30)
        worst = max(worst, e)
        if not e <= 1.0:
            per = [float(np.abs(garr[k] - want[k]).max()) for k in range(len(refs))] if not averaged and garr.shape[0] == len(refs) else None
            viol.append({"key": "values/%s/%s" % (tag, "lazy" if c["lazy"] else "eager"), "msg": "output %d differs from the independent runs: max|d| = %.3g on %.3g, per configuration %r (%s)" % (
                i, float(np.abs(garr - want).max()), float(np.abs(want).max()), per, c)})
    return {"viol": viol, "obs": U.result_digest(got), "nt": c["n"] >= 2, "tr": 1 + len(refs), "ref": len(got), "err": worst}


def run_prism(c):
    import abtem
    from mc import universe as U
    from mc.compare import err

    ens = make_ensemble(c)
    configs = list(make_ensemble(c))
    kw = dict(gpts=(24, 24), slice_thickness=2.0)
    skw = dict(semiangle_cutoff=20.0, energy=100e3, interpolation=c["interp"], downsample=False)
    scan = lambda: abtem.CustomScan([[0.3, 0.4], [2.1, 1.7], [3.6, 2.9]])  # noqa: E731

    def reduce(pot):
        S = abtem.SMatrix(potential=pot, **skw)
        r = c["route"]
        if r == "build-eager-reduce":
            out = S.build(lazy=False).reduce(scan=scan())
        elif r == "reduce-eager":
            out = S.reduce(scan=scan(), lazy=False)
        elif r == "reduce-lazy":
            out = S.reduce(scan=scan(), lazy=True)
        else:
            out = S.build(lazy=True).compute().reduce(scan=scan())
        out = out.compute() if getattr(out, "is_lazy", False) else out
        return np.asarray(out.array)

    got = reduce(abtem.Potential(ens, **kw))
    refs = np.stack([np.asarray(abtem.SMatrix(potential=abtem.Potential(a, **kw), **skw).reduce(scan=scan(), lazy=False).array) for a in configs])
    viol = []
    if got.shape != refs.shape:
        viol.append({"key": "prism/shape", "msg": "PRISM ensemble result has shape %r, the stacked per-configuration results %r (%s)" % (got.shape, refs.shape, c)})
        return {"viol": viol}
    e = err(got, refs, RTOL, atol=1e-30)
    if not e <= 1.0:
        per = [float(np.abs(got[k] - refs[k]).max()) for k in range(len(refs))]
        viol.append({"key": "prism/values/%s" % c["route"], "msg": "PRISM (interpolation %d, route %s): ensemble members differ from the per-configuration runs by %r on max %.3g (%s)" % (
            c["interp"], c["route"], per, float(np.abs(refs).max()), c)})
    return {"viol": viol, "obs": "prism", "nt": True, "tr": 1 + len(configs), "ref": len(configs), "err": e}


def _atoms_key(a):
    return (np.round(a.positions, 12).tobytes(), a.numbers.tobytes(), np.asarray(a.cell).tobytes())


def run_seeds(c):
    import abtem
    from mc import universe as U
    from mc.compare import compositions

    c = dict(c, mean=False)
    ens = make_ensemble(c)
    n = c["n"]
    base = [_atoms_key(a) for a in ens]
    viol, tr = [], 0

    def bad(key, msg):
        if sum(1 for v in viol if v["key"] == key) < 2:
            viol.append({"key": key, "msg": "%s (%s)" % (msg, c)})

    # repeatability
    if [_atoms_key(a) for a in make_ensemble(c)] != base:
        bad("seeds/not-reproducible", "two identically constructed ensembles give different configurations")
    # every chunking, eager and lazy
    for comp in compositions(n):
        for lazy in (False, True):
            tr += 1
            e2 = make_ensemble(c)
            got = []
            if lazy:
                blocks = e2.ensemble_blocks((comp,)).compute()
                for b in np.ravel(blocks):
                    got += [_atoms_key(a) for a in b]
            else:
                for _, _, b in e2.generate_blocks((comp,)):
                    got += [_atoms_key(a) for a in b.item()]
            if got != base:
                bad("seeds/depends-on-chunking/%s" % ("lazy" if lazy else "eager"), "chunks %r give %d configurations, %d of them equal to the unchunked ones" % (
                    comp, len(got), sum(1 for x, y in zip(got, base) if x == y)))
    # reversed processing order: generate configuration k alone, last first
    if c["kind"] == "fp":
        for k in reversed(range(n)):
            tr += 1
            single = abtem.FrozenPhonons(U.atoms("A1"), 1, SIGMAS[c["sigma"]], directions=c["dir"], seed=(SEEDS[c["seed"]][k],), ensemble_mean=False)
            if [_atoms_key(a) for a in single] != [base[k]]:
                bad("seeds/single-seed", "configuration %d differs from the 1-ensemble with seed %r" % (k, SEEDS[c["seed"]][k]))
        ae = make_ensemble(c).to_atoms_ensemble()
        tr += 1
        if [_atoms_key(a) for a in ae] != base:
            bad("seeds/to-atoms-ensemble", "to_atoms_ensemble() changes the configurations")
        # the displaced configurations differ from each other and from the input (non-vacuity) and respect `directions`
        a0 = U.atoms("A1")
        for k, a in enumerate(make_ensemble(c)):
            d = a.positions - a0.positions
            d -= np.round(d / np.diag(a0.cell)) * np.diag(a0.cell)
            moved = {ax for ax in range(3) if np.abs(d[:, ax]).max() > 1e-9}
            want = {"xyz": {0, 1, 2}, "xy": {0, 1}, "z": {2}}[c["dir"]]
            if moved != want:
                bad("seeds/directions", "configuration %d moved along axes %r, directions=%r" % (k, sorted(moved), c["dir"]))
        if n >= 2 and len(set(base)) != n:
            bad("seeds/identical-configurations", "distinct seeds gave identical configurations")
    return {"viol": viol, "obs": "%d configs" % n, "nt": n >= 2, "tr": tr, "ref": tr}
