"""C09 — the independent-atom potential is additive and slicing conserves it.

Spaces:
 A  additivity   ALL 2-partitions of the atom sets A1, A2, 4 mixed atoms, an atomic column, NaCl + LiF (widest species is not the heaviest) x both projections: V(A u B) = V(A) + V(B).
 S  slicing      atoms with z in {0, every cumulative slice boundary exactly, boundary +- 1e-9, top - 1e-11, mid-slice} x slice
                 thickness in {H, 2, 1, 0.5, (1.5, 2.5), (0.3, 3.7)} x cell heights {2, 4, 7.3}:
                 - infinite projection: project() (sum over slices) does not depend on the slicing;
                 - SliceIndexedAtoms: the slices partition the atoms (every atom exactly once, checked by tags), a boundary
                   atom is in the upper slice, sum(slice_thickness) = cell height;
                 - the slice holding an atom carries its projected potential (the atom is not dropped).
"""
import itertools

import numpy as np

META = dict(
    engines=["product"],
    technique="exhaustive enumeration of all 2-partitions of atom sets and of boundary z-positions x slicings x cell heights; invariants checked on every slice",
    text="Every 2-partition of five atom sets (one in which the widest species is not the heaviest) is built separately and together (both projections) and compared; single atoms are placed at z = 0, at "
         "every slice boundary exactly and 1e-9 beside it, just below the top and mid-slice, for 6 slicings and 3 cell heights, and the slice "
         "assignment (by tag), the boundary rule, the thickness sum, the per-slice potential and the slicing-invariance of the projected "
         "potential are checked.",
    note="Bound: <= 4 atoms, 16x12 grid (thorough: also 15x9 and 24x20, Lobato and Kirkland tables, C / Si / Au test atoms), <= 15 slices. Tolerances: additivity 1e-5 of max V, projection invariance 1e-5.",
)


def atom_sets():
    import ase

    from mc import universe as U

    mixed = ase.Atoms("CSiAuC", positions=[(0.4, 0.4, 0.3), (2.0, 1.5, 1.9), (3.1, 2.2, 2.6), (1.2, 2.7, 3.8)], cell=(4, 3, 4), pbc=True)
    # an atomic column: same-element atoms on top of each other (they share pixels inside one slice) + one other element
    column = ase.Atoms("C3Si", positions=[(1.3, 1.1, 0.6), (1.3, 1.1, 1.4), (1.3, 1.1, 3.1), (1.35, 1.12, 1.0)], cell=(4, 3, 4), pbc=True)
    # light, WIDE atoms next to heavier, narrower ones (cutoff radius Na 6.6 > Cl 3.7, Li 6.2 > F 2.9 A): the widest species is not the heaviest
    salt = ase.Atoms("NaClLiF", positions=[(0.4, 0.4, 0.3), (2.4, 1.9, 2.3), (3.1, 0.7, 2.6), (1.2, 2.7, 3.8)], cell=(4, 3, 4), pbc=True)
    return {"A1": U.atoms("A1"), "A2": U.atoms("A2"), "mixed4": mixed, "column4": column, "salt4": salt}


THICK = ["H", 2.0, 1.0, 0.5, [1.5, 2.5], [0.3, 3.7]]


def check(ctx):
    A = []
    for name, n in (("A1", 2), ("A2", 3), ("mixed4", 4), ("column4", 4), ("salt4", 4)):
        for mask in range(1, 2 ** n - 1):
            if mask < (2 ** n - 1 - mask):  # unordered partitions
                for proj in ("infinite", "finite"):
                    A.append({"space": "A", "set": name, "mask": mask, "proj": proj})
    S = []
    for H in (2.0, 4.0, 7.3):
        for ti, t in enumerate(THICK):
            if isinstance(t, list) and abs(sum(t) - H) > 1e-9:
                continue
            S.append({"space": "S", "H": H, "t": ti})
    if not ctx.quick:  # thorough: the same spaces on an odd x odd and a larger grid, both tabulated parametrizations, light / heavy elements
        extra = []
        for gp, par in itertools.product(((16, 12), (15, 9), (24, 20)), ("lobato", "kirkland")):
            if (gp, par) == ((16, 12), "lobato"):
                continue
            extra += [dict(c, gpts=list(gp), param=par) for c in A]
            for el in ("C", "Si", "Au"):
                extra += [dict(c, gpts=list(gp), param=par, elem=el) for c in S]
        for el in ("Si", "Au"):
            extra += [dict(c, elem=el) for c in S]
        A = A + [c for c in extra if c["space"] == "A"]
        S = S + [c for c in extra if c["space"] == "S"]
    ctx.run(A, "run_case", rule="A: every unordered 2-partition x projection", space="A additivity")
    ctx.run(S, "run_case", rule="S: per (cell height, slicing) all boundary z positions; non-trivial = more than one slice", space="S slicing")


_CFG = {"gpts": (16, 12), "param": "lobato"}


def build(atoms, proj="infinite", st=2.0):
    import abtem

    return abtem.Potential(atoms, gpts=tuple(_CFG["gpts"]), projection=proj, slice_thickness=st, parametrization=_CFG["param"]).build(lazy=False)


def run_case(c):
    import abtem
    import ase
    from mc.compare import err

    viol, worst, tr = [], 0.0, 0
    _CFG.update(gpts=tuple(c.get("gpts", (16, 12))), param=c.get("param", "lobato"))
    ELEM = c.get("elem", "C")

    def bad(key, msg):
        if sum(1 for v in viol if v["key"] == key) < 2:
            viol.append({"key": key, "msg": "%s (%s)" % (msg, c)})

    if c["space"] == "A":
        atoms = atom_sets()[c["set"]]
        n = len(atoms)
        ia = [i for i in range(n) if c["mask"] >> i & 1]
        ib = [i for i in range(n) if not c["mask"] >> i & 1]
        whole = np.asarray(build(atoms, c["proj"]).array)
        pa = np.asarray(build(atoms[ia], c["proj"]).array)
        pb = np.asarray(build(atoms[ib], c["proj"]).array)
        e = err(pa + pb, whole, 1e-5, atol=1e-9)
        if not e <= 1.0:
            bad("additivity/" + c["proj"], "V(A)+V(B) differs from V(A u B) by %.3g on max %.3g for A=%r B=%r" % (float(np.abs(pa + pb - whole).max()), float(np.abs(whole).max()), ia, ib))
        return {"viol": viol, "obs": "ok", "tr": 3, "ref": 1, "err": e}
    # ---------------------------------------------------------------------------------------------- slicing
    from abtem.slicing import SliceIndexedAtoms

    H = c["H"]
    t = THICK[c["t"]]
    st = H if t == "H" else (tuple(t) if isinstance(t, list) else t)
    probe_atoms = ase.Atoms(ELEM, positions=[(1.3, 1.1, H / 2)], cell=(4, 3, H), pbc=True)
    sl = SliceIndexedAtoms(probe_atoms, st)
    thick = tuple(sl.slice_thickness)
    ns = len(thick)
    if abs(sum(thick) - H) > 1e-9:
        bad("slicing/thickness-sum", "slice thicknesses %r sum to %r, cell height %r" % (thick, sum(thick), H))
    bounds = np.concatenate([[0.0], np.cumsum(thick)])
    zs = [(0.0, 0, "bottom")]
    for k in range(1, ns):
        zs += [(float(bounds[k]), k, "boundary"), (float(bounds[k]) + 1e-9, k, "above"), (float(bounds[k]) - 1e-9, k - 1, "below")]
    zs += [(H - 1e-11, ns - 1, "top"), (float(bounds[0] + thick[0] / 2), 0, "mid")]
    # (i) all test atoms in one structure: the slices partition them
    allz = ase.Atoms("%s%d" % (ELEM, len(zs)), positions=[(0.3 + 0.2 * i, 1.0, z) for i, (z, _, _) in enumerate(zs)], cell=(4, 3, H), pbc=True)
    allz.set_tags(list(range(len(zs))))
    sl = SliceIndexedAtoms(allz, st)
    seen = []
    for i in range(ns):
        part = sl.get_atoms_in_slices(i)
        tr += 1
        seen += [(int(tag), i) for tag in part.get_tags()]
    tags = sorted(tg for tg, _ in seen)
    if tags != list(range(len(zs))):
        missing = sorted(set(range(len(zs))) - set(tags))
        dup = sorted({x for x in tags if tags.count(x) > 1})
        bad("slicing/not-a-partition", "atoms missing from all slices: %r (z=%r), in several slices: %r" % (missing, [zs[m][0] for m in missing], dup))
    where = dict(seen)
    for i, (z, want, kind) in enumerate(zs):
        if i in where and where[i] != want:
            bad("slicing/boundary-rule/" + kind, "atom at z=%r (%s, slice edges %r) is in slice %d, expected %d" % (z, kind, bounds.round(6).tolist(), where[i], want))
    # (ii) potential level: each atom alone; slice `want` carries it, projection independent of the slicing
    ref_proj = None
    for z, want, kind in zs:
        a = ase.Atoms(ELEM, positions=[(1.3, 1.1, z)], cell=(4, 3, H), pbc=True)
        built = build(a, "infinite", st)
        arr = np.asarray(built.array)
        tr += 1
        sums = arr.sum(axis=(-2, -1))
        total = float(sums.sum())
        if ref_proj is None:
            one = np.asarray(build(ase.Atoms(ELEM, positions=[(1.3, 1.1, H / 2)], cell=(4, 3, H), pbc=True), "infinite", H).array)
            ref_proj = one.sum(axis=0)
        proj = arr.sum(axis=0)
        e = err(proj, ref_proj, 1e-5, atol=1e-9)
        worst = max(worst, e)
        if not e <= 1.0:
            bad("projection/depends-on-slicing-or-z/" + kind, "atom at z=%r: projected potential differs from the single-slice reference by %.3g on %.3g (slice sums %r)" % (
                z, float(np.abs(proj - ref_proj).max()), float(np.abs(ref_proj).max()), sums.round(3).tolist()))
        nz = [i for i, s in enumerate(sums) if abs(s) > 1e-6 * max(abs(total), 1e-30)]
        expect = want if kind != "top" else 0  # Potential snaps z within 1e-10 of the top to z = 0
        if nz != [expect] and e <= 1.0:
            bad("potential/slice-of-atom/" + kind, "atom at z=%r (%s): potential appears in slices %r, expected [%d]" % (z, kind, nz, expect))
    # (iii) all atoms stacked in ONE column (same x, y): contributions that land on the same pixels inside a slice must add up
    col = ase.Atoms("%s%d" % (ELEM, len(zs)), positions=[(1.3, 1.1, z) for z, _, _ in zs], cell=(4, 3, H), pbc=True)
    cproj = np.asarray(build(col, "infinite", st).array).sum(axis=0)
    tr += 1
    e = err(cproj, len(zs) * ref_proj, 1e-5, atol=1e-9)
    worst = max(worst, e)
    if not e <= 1.0:
        bad("projection/column-not-additive", "%d atoms in one column: projected potential is %.4g x the single-atom projection (expected %d x)" % (
            len(zs), float(cproj.max() / ref_proj.max()), len(zs)))
    return {"viol": viol, "obs": "%d slices" % ns, "nt": ns > 1, "tr": tr, "ref": tr, "err": worst}
