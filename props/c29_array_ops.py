"""C29 — array-object structural operations keep data and metadata aligned.

Space: object types {Waves, Images, DiffractionPatterns, Real/ReciprocalSpaceLineProfiles, PolarMeasurements,
MeasurementsEnsemble} x ensemble shapes {(), (3,), (2,3)} x axis kinds per axis {Ordinal, Scan (linear), Tilt (pair values),
Positions, FrozenPhonons (plain)} x lazy/eager x operations: index expressions from {i, -1, a:b, ::2, 1:, 1::2, 1:n:2, 2::3, 1:n+3, [i,j], bool mask,
None and all pairs thereof, too many indices, base axes}, stack (axis 0/1), concatenate (each ensemble axis), squeeze,
expand_dims (each position), mean/sum/std/min/max (each axis subset, keepdims), arithmetic obj o obj, obj o scalar,
scalar o obj, obj o ndarray for + - * / ** and the in-place forms.
Oracle: the array equals the same NumPy operation on the raw array; len(axes_metadata) == ndim; ordinal values == the same
index applied to the value tuple; a sliced linear axis has offset + start*sampling and step*sampling; an integer index
puts the item's metadata into `metadata`; base axes cannot be indexed or reduced; operands are unchanged unless in place.
"""
import itertools

import numpy as np

META = dict(
    engines=["product"],
    technique="exhaustive enumeration of object types x ensemble shapes x axis kinds x index expressions / reductions / arithmetic forms; NumPy as reference model",
    text="For 7 array-object types, 3 ensemble shapes, 5 axis kinds and both evaluation modes, every index expression from a 9-item alphabet (and all "
         "pairs for two ensemble axes), every reduction over every axis subset with and without keepdims, stack / concatenate / squeeze / "
         "expand_dims at every position and every arithmetic form with 4 operand kinds is executed and compared with the same NumPy operation "
         "on the raw array, and the axes metadata / metadata are compared with the same operation on the value tuples.",
    note="Bound: ensemble axes of length <= 3, base shapes <= 6x5. Operations that raise where NumPy would not (no reflected method) are recorded as "
         "observations: the statement speaks about the values an operation gives.",
)
TYPES = ["Waves", "Images", "DiffractionPatterns", "RealSpaceLineProfiles", "ReciprocalSpaceLineProfiles", "PolarMeasurements", "MeasurementsEnsemble"]
AXES = ["ordinal", "scan", "tilt", "positions", "fp", "tiltx"]
SHAPES = [[], [3], [2, 3]]


def check(ctx):
    cases = []
    for t, sh, lazy in itertools.product(TYPES, SHAPES, (False, True)):
        kinds = list(itertools.product(AXES, repeat=len(sh)))
        if ctx.quick and len(sh) == 2:
            kinds = [k for i, k in enumerate(kinds) if i % 4 == TYPES.index(t) % 4]
        for k in kinds:
            if ctx.quick and lazy and t not in ("Waves", "Images"):
                continue
            cases.append({"type": t, "shape": sh, "axes": list(k), "lazy": lazy})
    ctx.run(cases, "run_case", rule="one case per (type, ensemble shape, axis kinds, lazy); inside all index expressions, reductions, structural "
            "operations and arithmetic forms; non-trivial = at least one ensemble axis")


def make_axis(kind, n, i):
    from abtem.core import axes as A

    if kind == "ordinal":
        return A.OrdinalAxis(label="p%d" % i, values=tuple(10.0 * (i + 1) + j for j in range(n)))
    if kind == "scan":
        return A.ScanAxis(label="xy"[i % 2], sampling=0.5, offset=1.0, units="Å")
    if kind == "tilt":
        return A.TiltAxis(label="tilt", values=tuple((float(j), -2.0 * j) for j in range(n)))
    if kind == "tiltx":  # per-axis tilt: the item's total tilt is the object's base tilt PLUS the axis value
        return A.AxisAlignedTiltAxis(direction="x", values=tuple(0.5 + 1.5 * j for j in range(n)))
    if kind == "positions":
        return A.PositionsAxis(values=tuple((0.5 * j, 1.0 + j) for j in range(n)))
    return A.FrozenPhononsAxis()


def make(c, salt=0):
    import abtem
    from abtem import measurements as M
    from mc.compare import rng

    sh = tuple(c["shape"])
    base = {"Waves": (6, 5), "Images": (6, 5), "DiffractionPatterns": (6, 5), "RealSpaceLineProfiles": (7,), "ReciprocalSpaceLineProfiles": (7,),
            "PolarMeasurements": (4, 3), "MeasurementsEnsemble": ()}[c["type"]]
    r = rng("c29", c["type"], sh, salt)
    arr = r.uniform(0.5, 2.0, size=sh + base).astype(np.float32)
    axes = [make_axis(k, n, i) for i, (k, n) in enumerate(zip(c["axes"], sh))]
    BASE = {"tag": 1, "base_tilt_x": 2.0, "base_tilt_y": -1.0} if "tiltx" in c["axes"] else {"tag": 1}
    if c["type"] == "Waves":
        arr = (arr + 1j * r.uniform(0.5, 2.0, size=arr.shape)).astype(np.complex64)
        obj = abtem.Waves(arr, energy=1e5, sampling=0.2, ensemble_axes_metadata=axes, metadata=dict(BASE))
    elif c["type"] == "Images":
        obj = abtem.Images(arr, sampling=0.2, ensemble_axes_metadata=axes, metadata=dict(BASE))
    elif c["type"] == "DiffractionPatterns":
        obj = M.DiffractionPatterns(arr, sampling=0.1, ensemble_axes_metadata=axes, metadata=dict(BASE, energy=1e5))
    elif c["type"] == "RealSpaceLineProfiles":
        obj = M.RealSpaceLineProfiles(arr, sampling=0.2, ensemble_axes_metadata=axes, metadata=dict(BASE))
    elif c["type"] == "ReciprocalSpaceLineProfiles":
        obj = M.ReciprocalSpaceLineProfiles(arr, sampling=0.2, ensemble_axes_metadata=axes, metadata=dict(BASE))
    elif c["type"] == "PolarMeasurements":
        obj = M.PolarMeasurements(arr, radial_sampling=1.0, azimuthal_sampling=2 * np.pi / 3, ensemble_axes_metadata=axes, metadata=dict(BASE))
    else:
        obj = M.MeasurementsEnsemble(arr, ensemble_axes_metadata=axes, metadata=dict(BASE))
    if c["lazy"]:
        obj = obj.ensure_lazy()
    return obj, arr


def arr_of(o):
    o = o.compute() if getattr(o, "is_lazy", False) else o
    return np.asarray(o.array)


def index_alphabet(n):
    al = [0, n - 1, -1, slice(0, 2), slice(None, None, 2), slice(1, None),
          slice(1, None, 2), slice(1, n, 2), slice(2, None, 3), slice(1, n + 3, 1), [0, n - 1], np.array([True] + [False] * (n - 2) + [True])[:n] if n > 1 else np.array([True]), None]
    return al


def describe(ix):
    return repr(ix.tolist() if isinstance(ix, np.ndarray) else ix)


def expected_axis(kind, n, i, item):
    """(values or ('linear', offset, sampling)) of axis `kind` of length n after applying item; None if the axis is removed"""
    ax = make_axis(kind, n, i)
    if isinstance(item, (int, np.integer)):
        return None
    if kind == "scan":
        if isinstance(item, slice):
            start = 0 if item.start is None else item.start
            step = 1 if item.step is None else item.step
            return ("linear", 1.0 + start * 0.5, 0.5 * step)
        return ("any",)  # a list / mask index of a linear axis cannot stay linear: not judged
    if kind == "fp":
        return ("plain",)
    vals = list(ax.values)
    if isinstance(item, slice):
        return vals[item]
    if isinstance(item, np.ndarray) and item.dtype == bool:
        return [v for v, m in zip(vals, item) if m]
    return [vals[j] for j in item]


def run_case(c):
    viol, tr, notes = [], 0, set()
    sh = tuple(c["shape"])
    nd = len(sh)

    def bad(key, msg):
        if sum(1 for v in viol if v["key"] == key) < 2:
            viol.append({"key": key, "msg": "%s (%s)" % (msg, c)})

    def same(a, b):
        a, b = np.asarray(a), np.asarray(b)
        return a.shape == b.shape and np.allclose(a, b, rtol=1e-5, atol=1e-6, equal_nan=True)

    def check_axes(o, what):
        if len(o.axes_metadata) != len(o.shape) or len(o.ensemble_axes_metadata) != len(o.ensemble_shape):
            bad("axes/count", "%s: %d axes metadata for %d dimensions" % (what, len(o.axes_metadata), len(o.shape)))
            return False
        return True

    obj, raw = make(c)
    base_nd = raw.ndim - nd
    # ------------------------------------------------------------------ indexing
    if nd:
        per_axis = [index_alphabet(n) for n in sh]
        exprs = [(ix,) for ix in per_axis[0]]
        if nd == 2:
            exprs += [(a, b) for a in per_axis[0] for b in per_axis[1]]
        for items in exprs:
            if sum(1 for it in items if isinstance(it, (list, np.ndarray))) > 1:
                continue  # numpy's joint fancy indexing is a different operation
            tr += 1
            np_items = tuple(items)
            try:
                want = raw[np_items]
            except Exception:  # noqa: BLE001
                continue
            try:
                got = obj[np_items if len(np_items) > 1 else np_items[0]]
            except Exception as e:  # noqa: BLE001
                import traceback

                frames = traceback.extract_tb(e.__traceback__)
                if c["lazy"] and frames and "/dask/" in frames[-1].filename:
                    notes.add("lazy indexing with a list and None raises inside dask (%s)" % type(e).__name__)
                    continue
                bad("index/raises", "indexing with %s raised %s: %s" % ([describe(i) for i in items], type(e).__name__, str(e)[:100]))
                continue
            if not same(arr_of(got), want):
                bad("index/values", "obj[%s]: array differs from numpy indexing (shape %r vs %r)" % ([describe(i) for i in items], arr_of(got).shape, want.shape))
                continue
            if not check_axes(got, "obj[%s]" % [describe(i) for i in items]):
                continue
            # axes metadata after indexing
            exp = []
            ai = 0
            for it in items:
                if it is None:
                    exp.append(("new",))
                    continue
                e = expected_axis(c["axes"][ai], sh[ai], ai, it)
                if e is None:
                    ax = make_axis(c["axes"][ai], sh[ai], ai)
                    md = got.metadata
                    j = int(it)
                    if (c["axes"][ai] in ("tilt", "positions") and c["axes"].count(c["axes"][ai]) > 1) or ("tilt" in c["axes"] and "tiltx" in c["axes"]):
                        pass  # two axes with the same metadata key in one object: which one wins is not defined
                    elif c["axes"][ai] == "tiltx" and c["axes"].count("tiltx") == 1 and "tilt" not in c["axes"]:
                        want = 2.0 + ax.values[j]
                        if abs(md.get("base_tilt_x", 1e9) - want) > 1e-9 or md.get("base_tilt_y") != -1.0:
                            bad("index/item-metadata/axis-aligned-tilt", "integer index %d on an x-tilt axis of an object with base tilt (2, -1): metadata has base tilt (%r, %r), expected (%r, -1.0)" % (
                                j, md.get("base_tilt_x"), md.get("base_tilt_y"), want))
                    elif c["axes"][ai] == "tilt":
                        v = ax.values[j]
                        if md.get("base_tilt_x") != v[0] or md.get("base_tilt_y") != v[1]:
                            bad("index/item-metadata", "integer index %d on a tilt axis: metadata %r lacks base_tilt (%r)" % (j, {k: md[k] for k in md if "tilt" in k}, v))
                    elif c["axes"][ai] in ("ordinal", "positions"):
                        if ax.label not in md or not np.allclose(np.asarray(md[ax.label], float), np.asarray(ax.values[j], float)):
                            bad("index/item-metadata", "integer index %d on axis %r: metadata[%r] = %r, expected %r" % (j, c["axes"][ai], ax.label, md.get(ax.label), ax.values[j]))
                else:
                    exp.append(e)
                ai += 1
            for k in range(ai, nd):
                exp.append(expected_axis(c["axes"][k], sh[k], k, slice(None)))
            gaxes = got.ensemble_axes_metadata
            if len(gaxes) != len(exp):
                bad("index/axes-count", "obj[%s]: %d ensemble axes, expected %d" % ([describe(i) for i in items], len(gaxes), len(exp)))
                continue
            for ga, e in zip(gaxes, exp):
                if e[0] in ("new", "any", "plain") if isinstance(e, tuple) else False:
                    continue
                if isinstance(e, tuple) and e[0] == "linear":
                    if not hasattr(ga, "offset") or abs(ga.offset - e[1]) > 1e-9 or abs(ga.sampling - e[2]) > 1e-9:
                        bad("index/linear-axis", "obj[%s]: linear axis offset/sampling %r/%r, expected %r/%r" % (
                            [describe(i) for i in items], getattr(ga, "offset", None), getattr(ga, "sampling", None), e[1], e[2]))
                else:
                    gv = list(getattr(ga, "values", []))
                    if len(gv) != len(e) or not all(np.allclose(np.asarray(x, float), np.asarray(y, float)) for x, y in zip(gv, e)):
                        bad("index/ordinal-values", "obj[%s]: axis values %r, expected %r" % ([describe(i) for i in items], gv, e))
        # too many indices / base axes must be refused
        for items in ((0,) * (nd + 1), (slice(None),) * nd + (0,)):
            tr += 1
            try:
                obj[items]
                bad("index/base-axis-allowed", "indexing with %d items (ensemble dims %d) did not raise" % (len(items), nd))
            except Exception:  # noqa: BLE001
                pass
    # ------------------------------------------------------------------ reductions
    for func in ("mean", "sum", "std", "min", "max"):
        if np.iscomplexobj(raw) and func in ("min", "max"):
            continue
        for r in range(1, nd + 1):
            for axes in itertools.combinations(range(nd), r):
                for keep in (False, True):
                    tr += 1
                    got = getattr(obj, func)(axis=axes if len(axes) > 1 else axes[0], keepdims=keep)
                    want = getattr(np, func)(raw.astype(np.complex128 if np.iscomplexobj(raw) else np.float64), axis=axes, keepdims=keep)
                    if not same(arr_of(got), want):
                        bad("reduce/values/" + func, "%s over axes %r keepdims=%r differs from numpy" % (func, axes, keep))
                    elif check_axes(got, "%s%r" % (func, axes)) and not keep:
                        left = [c["axes"][i] for i in range(nd) if i not in axes]
                        gk = [type(a).__name__ for a in got.ensemble_axes_metadata]
                        want_k = [type(make_axis(k, 2, 0)).__name__ for k in left]
                        if gk != want_k:
                            bad("reduce/axes", "%s over %r left axes %r, expected %r" % (func, axes, gk, want_k))
        if base_nd:
            tr += 1
            try:
                getattr(obj, func)(axis=-1)
                bad("reduce/base-axis-allowed", "%s over a base axis did not raise" % func)
            except Exception:  # noqa: BLE001
                pass
    # ------------------------------------------------------------------ stack / concatenate / squeeze / expand_dims
    import abtem
    from abtem.core.axes import OrdinalAxis

    other, raw2 = make(c, salt=1)
    for ax in range(0, nd + 1):
        tr += 1
        got = abtem.stack([obj, other], axis_metadata=OrdinalAxis(label="s", values=(0, 1)), axis=ax)
        want = np.stack([raw, raw2], axis=ax)
        if not same(arr_of(got), want):
            bad("stack/values", "stack along axis %d differs from numpy" % ax)
        elif check_axes(got, "stack") and type(got.ensemble_axes_metadata[ax]).__name__ != "OrdinalAxis":
            bad("stack/axes", "stack along %d: new axis metadata is at the wrong position: %r" % (ax, [type(a).__name__ for a in got.ensemble_axes_metadata]))
    for ax in range(nd):
        if c["axes"][ax] in ("scan", "fp"):
            continue  # linear / plain axes: concatenation semantics are not value sequences
        tr += 1
        try:
            got = abtem.concatenate([obj, other], axis=ax)
        except Exception as e:  # noqa: BLE001
            bad("concatenate/raises", "concatenate along axis %d (%s) raised %s" % (ax, c["axes"][ax], type(e).__name__))
            continue
        want = np.concatenate([raw, raw2], axis=ax)
        if not same(arr_of(got), want):
            bad("concatenate/values", "concatenate along axis %d differs from numpy" % ax)
        elif check_axes(got, "concatenate"):
            v = list(make_axis(c["axes"][ax], sh[ax], ax).values)
            gv = list(got.ensemble_axes_metadata[ax].values)
            if len(gv) != 2 * len(v) or not all(np.allclose(np.asarray(x, float), np.asarray(y, float)) for x, y in zip(gv, v + v)):
                bad("concatenate/axis-values", "concatenated axis values %r, expected %r" % (gv, v + v))
    for ax in range(0, nd + 1):
        tr += 1
        got = obj.expand_dims(axis=ax)
        want = np.expand_dims(raw, ax)
        if not same(arr_of(got), want) or not check_axes(got, "expand_dims"):
            bad("expand_dims", "expand_dims(%d) differs from numpy or loses axes" % ax)
        else:
            back = got.squeeze()
            if arr_of(back).shape != tuple(s for s in want.shape[: nd + 1] if s != 1) + want.shape[nd + 1:] or not check_axes(back, "squeeze"):
                bad("squeeze", "squeeze after expand_dims(%d): shape %r" % (ax, arr_of(back).shape))
    # ------------------------------------------------------------------ arithmetic
    import operator as op

    scalar = 2.0
    nda = np.full(raw.shape[nd:], 1.5, dtype=np.float32)
    for name, f in (("add", op.add), ("sub", op.sub), ("mul", op.mul), ("truediv", op.truediv), ("pow", op.pow)):
        for kind, rhs, rhs_raw in (("obj", other, raw2), ("scalar", scalar, scalar), ("ndarray", nda, nda)):
            tr += 1
            try:
                got = f(obj, rhs)
            except Exception as e:  # noqa: BLE001
                notes.add("obj %s %s raises %s" % (name, kind, type(e).__name__))
                continue
            want = f(raw.astype(np.complex128 if np.iscomplexobj(raw) else np.float64), rhs_raw)
            if not same(arr_of(got), want):
                bad("arith/%s/obj-%s" % (name, kind), "obj %s %s differs from numpy" % (name, kind))
            check_axes(got, "arith")
        tr += 1
        try:
            got = f(scalar, obj)
        except Exception as e:  # noqa: BLE001
            notes.add("scalar %s obj raises %s (no reflected method)" % (name, type(e).__name__))
            continue
        want = f(scalar, raw.astype(np.complex128 if np.iscomplexobj(raw) else np.float64))
        if not same(arr_of(got), want):
            bad("arith/%s/scalar-obj" % name, "%r %s obj differs from numpy: e.g. %r vs %r" % (scalar, name, np.ravel(arr_of(got))[0], np.ravel(want)[0]))
    if not c["lazy"]:
        for name, f in (("iadd", op.iadd), ("isub", op.isub), ("imul", op.imul), ("itruediv", op.itruediv)):
            o2, r2 = make(c, salt=2)
            r2 = r2.copy()  # the object holds the array itself: keep the reference values apart
            tr += 1
            try:
                res = f(o2, scalar)
            except Exception as e:  # noqa: BLE001
                notes.add("%s raises %s" % (name, type(e).__name__))
                continue
            want = getattr(op, name[1:])(r2.astype(np.complex128 if np.iscomplexobj(r2) else np.float64), scalar)
            if not same(arr_of(res), want):
                bad("arith/inplace/" + name, "%s differs from numpy" % name)
    # operands unchanged
    if not np.array_equal(arr_of(obj), raw) or not np.array_equal(arr_of(other), raw2):
        bad("mutated-operand", "an operation modified its operand")
    return {"viol": viol, "obs": "ok" if not viol else viol[0]["key"], "nt": nd > 0, "tr": tr, "ref": tr, "st": tr, "notes": sorted(notes)}
