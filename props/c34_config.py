"""C34 — temporary configuration changes are always undone.

Explicit-state BFS on the real `abtem.config.set` and the real global config dict.  Events: E(i) = construct
and enter `set(KEYS[i])`; X = leave the innermost open context normally; R = leave it through an exception
(`__exit__` called with exception info, exactly what the `with` statement does).  A constructor that raises
(e.g. a two-key set whose second key cannot be assigned because an outer context turned its parent into a
scalar) is modelled as the program catching that error inside the enclosing body and carrying on.

canon(state) = (canonical JSON of the config, for every open context its entry snapshot and its private
rollback record) — that is the complete state of the mechanism, so merged histories have equal futures.
Invariant on every X / R transition: config == deep snapshot taken when that context was entered (including
absence of keys).  A boring reference model (snapshot stack + a 10-line nested assignment) is replayed in
lock-step: after E the real config must equal the model's, after X / R the model restores its snapshot.
"""
import copy
import json

META = dict(
    engines=["bfs"],
    technique="explicit-state BFS over nestings of the real config.set contexts, reference model replayed in lock-step",
    text="Breadth-first search over all nestings (depth <= 3 quick / 4 thorough) and sequences of config.set contexts drawn "
         "from a 16-entry key alphabet (existing/new, flat/nested, aliases, dict<->scalar and dict<->None replacement, multi-key, kwargs, "
         "constructor failures), each left normally or by exception; every transition is executed on the real global config, "
         "restoration is checked against the entry snapshot at every exit and a reference model is replayed in lock-step.",
    note="Bound: nesting depth and key alphabet as stated; LIFO exit order only (guaranteed by the with statement); "
         "single thread (the config lock is not exercised). Trusted: json canonicalisation of config values.",
)

KEYS = [
    [{"precision": "float64"}, {}],
    [{"fftw.threads": 3}, {}],
    [{"fftw.planning-effort": "FFTW_ESTIMATE"}, {}],
    [{"zz": 1}, {}],
    [{"zz.a.b": 2}, {}],
    [{"fftw.new": 5}, {}],
    [{"fftw": 1}, {}],
    [{"fftw": {"threads": 9}}, {}],
    [{"precision": "float64", "fftw.threads": 7}, {}],
    [{"fftw.threads": 7, "zz.q": 1}, {}],
    [{"zz.a": 3}, {}],
    [{"precision": "float16", "zz.a": 4}, {}],
    [{"zz": None}, {}],  # a section that exists and holds None (an empty yaml section / an option switched off)
    [{"fftw": None}, {}],
    [None, {"fftw__threads": 5}],
    [{"precision": "float64"}, {"precision": "float16", "dask__lazy": False}],
]


def _cfg():
    from abtem.core import config as C

    return C


_BASE = None


def _snap(d):
    return json.dumps(d, sort_keys=True, default=str)


def fresh():
    global _BASE
    C = _cfg()
    if _BASE is None:
        C.refresh()
        _BASE = copy.deepcopy(C.config)
    C.config.clear()
    C.config.update(copy.deepcopy(_BASE))
    return {"stack": [], "model": copy.deepcopy(_BASE), "mstack": [], "viol": []}


# ------------------------------------------------------------------ reference model (kept boring)
def _canon_name(k, d):
    if k in d:
        return k
    for alt in (k.replace("-", "_"), k.replace("_", "-")):
        if alt in d:
            return alt
    return k


def model_assign(model, arg, kwargs):
    """Returns new model dict, or None when some key cannot be assigned (the model defines no result then)."""
    m = copy.deepcopy(model)
    items = list((arg or {}).items()) + [(k.replace("__", "."), v) for k, v in kwargs.items()]
    for key, value in items:
        d = m
        parts = key.split(".")
        for p in parts[:-1]:
            if not isinstance(d, dict):
                return None
            p = _canon_name(p, d)
            if p not in d:
                d[p] = {}
            d = d[p]
        if not isinstance(d, dict):
            return None
        d[_canon_name(parts[-1], d)] = copy.deepcopy(value)
    return m


# ------------------------------------------------------------------ transitions on the real implementation
def apply(s, ev):
    C = _cfg()
    s["viol"] = []
    if ev[0] == "E":
        arg, kwargs = KEYS[ev[1]]
        snap = _snap(C.config)
        predicted = model_assign(s["model"], arg, kwargs)
        try:
            ctx = C.set(copy.deepcopy(arg), **copy.deepcopy(kwargs))
        except Exception as e:  # constructor failed: nothing was entered
            for fr in s["stack"]:
                fr["dirty"] = True
            if predicted is not None:
                s["viol"].append(("set/raises-but-model-assigns", "set(%r, **%r) raised %r" % (arg, kwargs, e)))
            s["model"] = json.loads(_snap(C.config))  # implementation-only failure: model follows, exits are still checked
            s["toplevel_partial"] = (not s["stack"]) and _snap(C.config) != snap
            return "ctor-raises:" + type(e).__name__ + (":partial-write" if _snap(C.config) != snap else ":clean")
        ctx.__enter__()
        s["stack"].append({"ctx": ctx, "snap": snap, "dirty": False, "i": ev[1]})
        s["mstack"].append(copy.deepcopy(s["model"]))
        if predicted is None:
            s["viol"].append(("set/assigns-but-model-raises", "set(%r, **%r) succeeded, model cannot assign" % (arg, kwargs)))
            s["model"] = json.loads(_snap(C.config))
        else:
            s["model"] = predicted
            if _snap(predicted) != _snap(C.config):
                s["viol"].append(("set/value-mismatch", "after set(%r, **%r): config %s != model %s" % (
                    arg, kwargs, _diff(C.config, predicted), "")))
        return "entered"
    fr = s["stack"].pop()
    s["model"] = s["mstack"].pop()
    if ev[0] == "X":
        fr["ctx"].__exit__(None, None, None)
        mode = "normal-exit"
    else:
        exc = KeyError("boom")
        swallowed = fr["ctx"].__exit__(KeyError, exc, None)
        mode = "exception-exit"
        if swallowed:
            s["viol"].append(("exit/swallows-exception", "__exit__ returned a true value"))
    now = _snap(C.config)
    if now != fr["snap"]:
        key = "restore/ctor-partial-write" if fr["dirty"] else "restore/" + mode
        s["viol"].append((key, "leaving set(%r, **%r) by %s: config differs from entry snapshot: %s" % (
            KEYS[fr["i"]][0], KEYS[fr["i"]][1], mode, _diff(json.loads(now), json.loads(fr["snap"])))))
        s["model"] = json.loads(now)
    elif _snap(s["model"]) != now:
        s["viol"].append(("restore/model-mismatch", "model and config differ after exit: %s" % _diff(json.loads(now), s["model"])))
    return mode


def _diff(a, b, path=""):
    out = []
    for k in sorted(set(a) | set(b), key=str):
        if k not in a:
            out.append("%s%s missing (expected %r)" % (path, k, b[k]))
        elif k not in b:
            out.append("%s%s=%r should not exist" % (path, k, a[k]))
        elif isinstance(a[k], dict) and isinstance(b[k], dict):
            d = _diff(a[k], b[k], path + str(k) + ".")
            if d:
                out.append(d)
        elif a[k] != b[k]:
            out.append("%s%s=%r expected %r" % (path, k, a[k], b[k]))
    return "; ".join(out)


def canon(s):
    C = _cfg()
    return (_snap(C.config), tuple((fr["snap"], repr(fr["ctx"]._record), fr["dirty"]) for fr in s["stack"]))


def make_enabled(maxnest):
    def enabled(s):
        evs = []
        if len(s["stack"]) < maxnest:
            evs += [["E", i] for i in range(len(KEYS))]
        if s["stack"]:
            evs += [["X"], ["R"]]
        return evs

    return enabled


def check_transition(s, hist, ev, info, pre):
    return list(s["viol"])


def explore(case):
    """One BFS partition: all histories starting with case['prefix']."""
    from mc.bfs import bfs

    r = bfs(fresh, apply, make_enabled(case["maxnest"]), canon, check_transition, case["depth"] - len(case["prefix"]),
            prefix=tuple(tuple(e) for e in case["prefix"]))
    viol = []
    seen_keys = {}
    for key, msg, hist in r["violations"]:
        seen_keys[key] = seen_keys.get(key, 0) + 1
        if seen_keys[key] <= 3:
            viol.append({"key": key, "msg": msg + "\nhistory: %r" % (hist,), "case": {"history": hist}, "func": "replay_history"})
    fresh()
    return {"viol": viol, "obs": json.dumps(r["infos"], sort_keys=True), "nt": True, "tr": r["transitions"],
            "st": len(r["states"]), "ref": r["transitions"], "state_hashes": sorted(r["states"]),
            "notes": ["%s x%d" % kv for kv in sorted(r["infos"].items())] + ["violating transitions %s x%d" % kv for kv in seen_keys.items()],
            "nviol": sum(seen_keys.values()), "depth": r["depth"]}


def replay_history(case):
    s = fresh()
    viol = []
    trace = []
    for ev in case["history"]:
        info = apply(s, tuple(ev) if isinstance(ev, list) else ev)
        trace.append("%r -> %s" % (ev, info))
        for key, msg in s["viol"]:
            viol.append({"key": key, "msg": msg})
    fresh()
    return {"viol": viol, "obs": " | ".join(trace)}


def check(ctx):
    maxnest = 3 if ctx.quick else 4
    depth = 2 * maxnest
    # partition the search by the first event (each partition keeps its own seen-set; hashes are united here)
    cases = [{"prefix": [["E", i]], "maxnest": maxnest, "depth": depth} for i in range(len(KEYS))]
    ctx.workers = min(ctx.workers, len(cases))
    res = ctx.run(cases, "explore", batch=1, rule="BFS over event histories E(i)/X/R of length <= %d with nesting <= %d over a %d-entry "
                  "key alphabet, deduplicated on (config, open-context snapshots and rollback records); non-trivial = every partition "
                  "(each starts by entering a context)" % (depth, maxnest, len(KEYS)))
    allstates = set()
    for r in res:
        allstates.update(r.get("state_hashes", []))
    ctx.extra_states = 0
    ctx.extra["distinct_states_over_partitions"] = len(allstates)
    ctx.extra["bfs_depth_completed"] = min([r.get("depth", 0) for r in res] or [0])
    ctx.extra["max_nesting"] = maxnest
    ctx.extra["violating_transitions"] = sum(r.get("nviol", 0) for r in res)
    ctx.states = allstates
