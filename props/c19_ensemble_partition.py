"""C19 — ensemble partitioning reassembles every member exactly once.

Space: ensemble kinds {CustomScan n = 1..5, LineScan gpts 1..5 x endpoint, GridScan (1..3)x(1..3) x endpoint^2 plus (4,1), (1,4), (4,2), (2,5), (5,1), CTF with one or
two distributions, Aperture distribution, BeamTilt N x 2, BeamTilt2D, FrozenPhonons n = 1..4, AtomsEnsemble, seeded
CrystalPotential, Probe (composite: tilt x aberration x positions), Waves / Images / DiffractionPatterns arrays with
ensemble shapes up to (3,2), MultisliceTransform} x EVERY composition of every ensemble axis as chunking x {generate_blocks
(eager), ensemble_blocks().compute() (lazy)}.
Oracle: the members recovered from the blocks, concatenated in block order, equal the members of the unpartitioned ensemble
(positions to 2e-6 of the extent, values / weights / seeds / arrays / axis values exactly); the index ranges of the blocks equal
chunk_ranges; lazy blocks equal eager blocks.
"""
import itertools

import numpy as np

from mc.compare import compositions

META = dict(
    engines=["product"],
    technique="exhaustive enumeration of ensemble kinds x ALL compositions of every ensemble axis x lazy/eager; reassembly compared member by member",
    text="For 14 ensemble kinds every chunking (all 2^(n-1) compositions per axis, full product over axes) is partitioned eagerly and lazily with the "
         "real generate_blocks / ensemble_blocks, the members of the blocks are concatenated in block order and compared with the members of the "
         "unpartitioned ensemble, together with the block index ranges.",
    note="Bound: axes of length <= 5 (<= 3 for multi-axis ensembles). Scan positions are float32: tolerance 2e-6 of the extent; everything else exact.",
)


def specs(quick):
    S = []
    for n in range(1, 6):
        S.append({"kind": "custom", "n": n})
    for n, ep in itertools.product(range(1, 6), (False, True)):
        S.append({"kind": "line", "n": n, "ep": ep})
    for nx, ny, ex, ey in itertools.product(range(1, 4), range(1, 4), (False, True), (False, True)):
        if quick and ex != ey and (nx + ny) % 2:
            continue
        S.append({"kind": "grid", "n": [nx, ny], "ep": [ex, ey]})
    # three or more blocks of DIFFERENT sizes need >= 4 positions on an axis (compositions such as (1, 2, 1), (2, 1, 2), (1, 3, 1))
    for (nx, ny), ep in itertools.product(((4, 1), (1, 4), (4, 2), (2, 5), (5, 1)), ((False, False), (True, True))):
        S.append({"kind": "grid", "n": [nx, ny], "ep": list(ep)})
    S += [{"kind": "ctf1", "n": 4}, {"kind": "ctf2", "n": [3, 2]}, {"kind": "aperture", "n": 3}, {"kind": "tilt_nx2", "n": 4}, {"kind": "tilt2d", "n": [3, 2]}]
    for n in range(1, 5):
        S.append({"kind": "fp", "n": n})
    S += [{"kind": "ae", "n": 3}, {"kind": "crystal", "n": 3}, {"kind": "probe", "n": [2, 3]}, {"kind": "multislice", "n": 3}]
    for cls in ("waves", "images", "dp"):
        for shape in ([3], [3, 2], [2, 3]):
            S.append({"kind": cls, "n": shape})
    # axis layouts in which an axis that cannot be sliced (frozen phonons, samples) PRECEDES sliceable ones: what a frozen-phonon scan produces
    for cls in ("waves", "images"):
        for layout, shape in ((["fp", "scan"], [2, 3]), (["fp", "scan", "scan"], [2, 4, 3]), (["scan", "fp", "ordinal"], [3, 2, 2]),
                              (["sample", "ordinal"], [2, 3]), (["fp", "tilt"], [2, 3]), (["ordinal", "fp"], [3, 2])):
            if quick and cls == "images" and len(shape) == 3:
                continue
            S.append({"kind": cls, "n": shape, "layout": layout})
    return S


def check(ctx):
    cases = []
    for s in specs(ctx.quick):
        for lazy in (False, True):
            cases.append(dict(s, lazy=lazy))
    # joint: the lazy block arrays of SEVERAL ensembles evaluated in one dask graph (every subset): each block must be the block the
    # ensemble gives on its own (two distributions with equal values but different weights, two scans of equal shape ...)
    cases.append({"kind": "JOINT", "lazy": True})
    ctx.run(cases, "run_case", rule="one case per (ensemble kind/shape, lazy); inside every combination of compositions of all ensemble axes; "
            "non-trivial = some axis has more than one member")


def make(c):
    """returns (ensemble, members(block) -> ndarray whose leading dims are the ensemble axes, tolerance)"""
    import abtem
    import abtem.distributions as D
    from abtem.core.axes import OrdinalAxis, ScanAxis, TiltAxis
    from mc import universe as U
    from mc.compare import rng

    k, n = c["kind"], c["n"]
    if k == "custom":
        pos = [[0.37 * i, 1.1 * i * i - 0.5] for i in range(n)]
        return abtem.CustomScan(pos), lambda b: np.asarray(b.get_positions(), float), 2e-6 * 20
    if k == "line":
        return abtem.LineScan(start=(0.2, 0.1), end=(2.2, 3.1), gpts=n, endpoint=c["ep"]), lambda b: np.asarray(b.get_positions(), float), 2e-5
    if k == "grid":
        return abtem.GridScan(start=(0.5, -1.0), end=(2.5, 2.0), gpts=tuple(n), endpoint=tuple(c["ep"])), lambda b: np.asarray(b.get_positions(), float), 2e-5
    if k == "ctf1":
        d = D.gaussian(30.0, n, center=10.0, ensemble_mean=False)
        return abtem.CTF(energy=1e5, semiangle_cutoff=20, C10=d), lambda b: np.stack([np.asarray(b.C10.values, float), np.asarray(b.C10.weights, float)], -1), 0.0
    if k == "ctf2":
        e = abtem.CTF(energy=1e5, semiangle_cutoff=20, C10=D.from_values([1.0, 2.0, 3.0][: n[0]]), C30=D.uniform(0, 1e4, n[1]))

        def mem(b):
            a = np.asarray(b.C10.values, float) if hasattr(b.C10, "values") else np.array([b.C10])
            bb = np.asarray(b.C30.values, float) if hasattr(b.C30, "values") else np.array([b.C30])
            return np.stack(np.meshgrid(a, bb, indexing="ij"), -1)

        return e, mem, 0.0
    if k == "aperture":
        return abtem.transfer.Aperture(D.from_values([10.0, 15.0, 22.0][:n]), energy=1e5), lambda b: np.atleast_1d(np.asarray(getattr(b.semiangle_cutoff, "values", b.semiangle_cutoff), float)), 0.0
    if k == "tilt_nx2":
        t = abtem.tilt.BeamTilt(np.array([[0.0, 0.0], [1.0, -2.0], [3.0, 4.0], [-5.0, 6.0]][:n]))
        return t, lambda b: np.asarray(b.tilt.values, float), 0.0
    if k == "tilt2d":
        t = abtem.tilt.BeamTilt2D(tilt_x=D.from_values([0.0, 1.0, 2.0][: n[0]]), tilt_y=D.from_values([5.0, 6.0][: n[1]]))

        def mem(b):
            x = np.atleast_1d(np.asarray(getattr(b.tilt_x, "values", b.tilt_x), float))
            y = np.atleast_1d(np.asarray(getattr(b.tilt_y, "values", b.tilt_y), float))
            return np.stack(np.meshgrid(x, y, indexing="ij"), -1)

        return t, mem, 0.0
    if k in ("fp", "ae"):
        fp = abtem.FrozenPhonons(U.atoms("A1"), n, 0.1, seed=tuple(range(11, 11 + n)), ensemble_mean=False)
        e = fp if k == "fp" else abtem.AtomsEnsemble(list(fp), ensemble_mean=False)
        return e, lambda b: np.stack([a.positions for a in b]), 0.0
    if k == "crystal":
        unit = abtem.Potential(abtem.FrozenPhonons(U.atoms("A0"), 2, 0.1, seed=(1, 2)), gpts=(8, 8), slice_thickness=1.0)
        e = abtem.CrystalPotential(unit, (1, 1, 2), seeds=(5, 6, 7)[:n], ensemble_mean=False)
        return e, lambda b: np.asarray(b.seeds, float), 0.0
    if k == "probe":
        p = abtem.Probe(semiangle_cutoff=20, energy=1e5, gpts=(8, 8), extent=4, tilt=(D.from_values([0.0, 3.0][: n[0]]), 0.0), C10=D.from_values([10.0, 40.0, 70.0][: n[1]]))
        return p, lambda b: np.asarray(b.build(abtem.CustomScan([[1.0, 2.0]]), lazy=False).array)[..., 0, :, :], 1e-6
    if k == "multislice":
        from abtem.multislice import MultisliceTransform

        pot = abtem.Potential(abtem.FrozenPhonons(U.atoms("A1"), n, 0.1, seed=(3, 4, 5)[:n], ensemble_mean=False), gpts=(8, 8), slice_thickness=2.0)
        return MultisliceTransform(pot), lambda b: np.stack([a.positions for a in b.potential.frozen_phonons]), 0.0
    # array objects
    shape = tuple(n)
    r = rng("c19", k, shape)
    axes = []
    if c.get("layout"):
        from abtem.core.axes import FrozenPhononsAxis, SampleAxis

        for i, (kind, m) in enumerate(zip(c["layout"], shape)):
            axes.append({"fp": lambda: FrozenPhononsAxis(), "sample": lambda: SampleAxis(),
                         "scan": lambda: ScanAxis(label="xy"[i % 2], sampling=0.5 + 0.25 * i, offset=1.0 - i, units="Å"),
                         "ordinal": lambda: OrdinalAxis(label="p%d" % i, values=tuple(10 * (i + 1) + j for j in range(m))),
                         "tilt": lambda: TiltAxis(values=tuple((float(j), -float(j)) for j in range(m)))}[kind]())
        shape_iter = []
    else:
        shape_iter = list(enumerate(shape))
    for i, m in shape_iter:
        axes.append([OrdinalAxis(label="p%d" % i, values=tuple(10 * (i + 1) + j for j in range(m))), ScanAxis(label="xy"[i % 2], sampling=0.5, offset=1.0, units="Å"),
                     TiltAxis(values=tuple((float(j), -float(j)) for j in range(m)))][(i + len(shape)) % 3])
    if k == "waves":
        arr = (r.normal(size=shape + (6, 5)) + 1j * r.normal(size=shape + (6, 5))).astype(np.complex64)
        obj = abtem.Waves(arr, energy=1e5, sampling=0.2, ensemble_axes_metadata=axes)
    elif k == "images":
        obj = abtem.Images(r.normal(size=shape + (6, 5)).astype(np.float32), sampling=0.2, ensemble_axes_metadata=axes)
    else:
        obj = abtem.measurements.DiffractionPatterns(r.random(size=shape + (6, 5)).astype(np.float32), sampling=0.1, ensemble_axes_metadata=axes, metadata={"energy": 1e5})
    return obj, "array", 0.0


def axis_values(obj):
    out = []
    for a, m in zip(obj.ensemble_axes_metadata, obj.ensemble_shape):
        from abtem.core.axes import LinearAxis

        if hasattr(a, "values"):
            out.append([repr(v) for v in a.values])
        elif isinstance(a, LinearAxis):
            out.append(["%.9g" % v for v in a.coordinates(m)])
        else:  # frozen phonons / samples: members carry no coordinate of their own, only their number is described
            out.append([type(a).__name__] * m)
    return out


def assemble(blocks, grid_shape, ndim):
    """blocks: dict index tuple -> ndarray (leading `ndim` dims are ensemble axes); concatenate in block order"""

    def rec(prefix, axis):
        if axis == ndim:
            return blocks[prefix]
        parts = [rec(prefix + (i,), axis + 1) for i in range(grid_shape[axis])]
        return np.concatenate(parts, axis=axis)

    return rec((), 0)


def run_joint(c):
    import dask

    import abtem
    import abtem.distributions as D

    def members():
        return [
            ("CTF(C10=uniform 5)", abtem.CTF(energy=1e5, semiangle_cutoff=20, C10=D.uniform(-60, 60, 5, endpoint=True)), lambda b: (np.asarray(b.C10.values, float), np.asarray(b.C10.weights, float))),
            ("CTF(C10=gaussian 5, same values)", abtem.CTF(energy=1e5, semiangle_cutoff=20, C10=D.gaussian(20, 5, sampling_limit=3.0)), lambda b: (np.asarray(b.C10.values, float), np.asarray(b.C10.weights, float))),
            ("CTF(C10=from_values 5, other weights)", abtem.CTF(energy=1e5, semiangle_cutoff=20, C10=D.from_values([-60.0, -30.0, 0.0, 30.0, 60.0], weights=np.array([1.0, 2.0, 3.0, 4.0, 5.0]))),
             lambda b: (np.asarray(b.C10.values, float), np.asarray(b.C10.weights, float))),
            ("Aberrations(C30=uniform 5)", abtem.transfer.Aberrations(energy=1e5, C30=D.uniform(-60, 60, 5, endpoint=True)), lambda b: (np.asarray(b.C30.values, float), np.asarray(b.C30.weights, float))),
            ("GridScan A", abtem.GridScan(start=(0, 0), end=(2, 2), gpts=(5, 1)), lambda b: (np.asarray(b.get_positions(), float).ravel(),)),
            ("GridScan B", abtem.GridScan(start=(1, 0.5), end=(3, 2.5), gpts=(5, 1)), lambda b: (np.asarray(b.get_positions(), float).ravel(),)),
        ]

    chunkings = [((2, 3),), ((1, 1, 3),)]
    viol, tr = [], 0
    for ch in chunkings:
        names = [m[0] for m in members()]
        n = len(names)

        def blocks_of(m, chunks):
            e = m[1]
            full = chunks if len(e.ensemble_shape) == 1 else chunks + ((1,),) * (len(e.ensemble_shape) - 1)
            return e.ensemble_blocks(full)

        alone = []
        for m in members():
            arr = blocks_of(m, ch).compute()
            alone.append([m[2](arr[idx].item() if hasattr(arr[idx], "item") and not hasattr(arr[idx], "ensemble_shape") else arr[idx]) for idx in np.ndindex(*arr.shape)])
        for r in range(2, n + 1):
            for sub in itertools.combinations(range(n), r):
                ms = members()
                lz = [blocks_of(ms[i], ch) for i in sub]
                got = dask.compute(*lz)
                tr += 1
                for i, arr in zip(sub, got):
                    obs = [ms[i][2](arr[idx].item() if hasattr(arr[idx], "item") and not hasattr(arr[idx], "ensemble_shape") else arr[idx]) for idx in np.ndindex(*arr.shape)]
                    same = len(obs) == len(alone[i]) and all(len(a) == len(b) and all(np.array_equal(x, y) for x, y in zip(a, b)) for a, b in zip(obs, alone[i]))
                    if not same and len(viol) < 2:
                        viol.append({"key": "joint/blocks-differ", "msg": "lazy blocks of %s (chunks %r), evaluated together with %r, differ from the blocks it gives on its own" % (
                            names[i], ch, [names[j] for j in sub if j != i])})
    return {"viol": viol, "obs": "joint", "nt": True, "tr": tr, "st": tr, "ref": tr}


def run_case(c):
    if c.get("kind") == "JOINT":
        return run_joint(c)
    from abtem.core.chunks import chunk_ranges

    viol, tr, worst = [], 0, 0.0

    def bad(key, msg):
        if sum(1 for v in viol if v["key"] == key) < 2:
            viol.append({"key": key, "msg": "%s (%s)" % (msg, c)})

    ens, members, tol = make(c)
    eshape = tuple(ens.ensemble_shape)
    nd = len(eshape)
    is_array = members == "array"
    if is_array:
        full = np.asarray(ens.array)
        full_axes = axis_values(ens)
    else:
        full = members(ens)
    nt = any(m > 1 for m in eshape)
    for comp in itertools.product(*[compositions(m) for m in eshape]):
        tr += 1
        ens2, _, _ = make(c)
        grid_shape = tuple(len(x) for x in comp)
        ranges = chunk_ranges(comp)
        blocks, block_axes = {}, {}
        try:
            if c["lazy"]:
                arr = ens2.ensemble_blocks(comp).compute()
                if arr.shape != grid_shape:
                    bad("blocks/grid-shape", "ensemble_blocks(%r) has shape %r" % (comp, arr.shape))
                    continue
                it = [(idx, None, arr[idx]) for idx in np.ndindex(*grid_shape)]
            else:
                it = list(ens2.generate_blocks(comp))
        except Exception as e:  # noqa: BLE001
            bad("blocks/raises/%s" % type(e).__name__, "partitioning with chunks %r raised %s: %s" % (comp, type(e).__name__, str(e)[:120]))
            continue
        if len(it) != int(np.prod(grid_shape)):
            bad("blocks/count", "chunks %r give %d blocks, expected %d" % (comp, len(it), int(np.prod(grid_shape))))
            continue
        for idx, slics, blk in it:
            idx = tuple(int(i) for i in (idx if isinstance(idx, tuple) else (idx,)))
            blk = blk.item() if hasattr(blk, "item") and not hasattr(blk, "ensemble_shape") else blk
            if slics is not None:
                want = tuple(slice(*ranges[d][idx[d]]) for d in range(nd))
                if tuple(slics) != want:
                    bad("blocks/index-ranges", "block %r reports slices %r, chunk_ranges give %r" % (idx, slics, want))
            want_shape = tuple(comp[d][idx[d]] for d in range(nd))
            if tuple(blk.ensemble_shape) != want_shape:
                bad("blocks/block-shape", "block %r of chunks %r has ensemble shape %r, expected %r" % (idx, comp, blk.ensemble_shape, want_shape))
            if is_array:
                blocks[idx] = np.asarray(blk.compute().array if getattr(blk, "is_lazy", False) else blk.array)
                block_axes[idx] = axis_values(blk)
            else:
                blocks[idx] = np.asarray(members(blk))
        try:
            got = assemble(blocks, grid_shape, nd)
        except Exception as e:  # noqa: BLE001
            bad("reassemble/shape", "blocks of chunks %r cannot be concatenated: %s" % (comp, str(e)[:100]))
            continue
        if got.shape != full.shape:
            bad("reassemble/shape", "chunks %r reassemble to shape %r, expected %r" % (comp, got.shape, full.shape))
            continue
        d = float(np.abs(got - full).max()) if got.size else 0.0
        if d > tol:
            bad("reassemble/members/%s" % ("lazy" if c["lazy"] else "eager"), "chunks %r: reassembled members differ from the original by %.3g (tolerance %.1g)" % (comp, d, tol))
        if tol:
            worst = max(worst, d / tol)
        if is_array:
            for ax in range(nd):
                vals = []
                for i in range(grid_shape[ax]):
                    idx = tuple(i if a == ax else 0 for a in range(nd))
                    vals += block_axes[idx][ax]
                if vals != full_axes[ax]:
                    bad("reassemble/axis-metadata", "chunks %r: axis %d values of the blocks %r, original %r" % (comp, ax, vals, full_axes[ax]))
    return {"viol": viol, "obs": "%s %r" % (c["kind"], eshape), "nt": nt, "tr": tr, "ref": tr, "st": tr, "err": worst}
