"""C36 — distributions have the values and weights they advertise.

Space: uniform(low, high, n, endpoint) for all low/high in {-2, 0, 3.5} (low != high), n in 1..6, both endpoint
settings; gaussian(sigma in {0.5, 2}, n in 1..7, dimension in {1,2,3} incl. per-axis tuples, center in {0, 1.5},
sampling_limit in {2, 3}, normalize in {intensity, amplitude}); from_values with and without weights; negation;
divide by every composition and every integer chunk count, lazily and eagerly.
Oracle: closed forms written out with math.exp and explicit loops (no numpy broadcasting shared with abTEM).
"""
import itertools
import math

import numpy as np

from mc.compare import compositions

META = dict(
    engines=["product"],
    technique="exhaustive enumeration of distribution parameters and of all chunkings against closed-form values/weights",
    text="Every parameter combination of uniform / gaussian (1-3 dimensions) / from_values in a small alphabet, every negation, and every "
         "division (all 2^(n-1) compositions and all integer chunk counts, lazy and eager) is executed and compared with closed-form "
         "values, the Gaussian profile, its norm, its symmetry and the partition of values and weights.",
    note="Bound: n <= 7 samples per axis, <= 3 dimensions, the stated parameter alphabet. Tolerance 1e-12 (float64).",
)
TOL = 1e-12


def check(ctx):
    cases = []
    q = ctx.quick
    for lo, hi in itertools.permutations([-2.0, 0.0, 3.5] if q else [-2.0, 0.0, 3.5, -0.25, 1e3], 2):
        for n in range(1, 7 if q else 11):
            for ep in (True, False):
                cases.append({"kind": "uniform", "lo": lo, "hi": hi, "n": n, "endpoint": ep})
    for dim in (1, 2, 3):
        ns = (range(1, 8) if dim == 1 else (range(1, 5) if dim == 2 else range(1, 4))) if q else (range(1, 13) if dim == 1 else (range(1, 7) if dim == 2 else range(1, 5)))
        for sigma in ((0.5, 2.0) if q else (0.5, 2.0, 0.01, 30.0)):
            for n in ns:
                for center in ((0.0, 1.5) if q else (0.0, 1.5, -7.25)):
                    for lim in ((2.0, 3.0) if q else (2.0, 3.0, 1.0, 4.5)):
                        for norm in ("intensity", "amplitude"):
                            cases.append({"kind": "gauss", "dim": dim, "sigma": sigma, "n": n, "center": center, "limit": lim, "norm": norm})
        if dim > 1:  # per-axis tuples
            for norm in ("intensity", "amplitude"):
                cases.append({"kind": "gauss", "dim": dim, "sigma": [0.5, 2.0, 1.0][:dim], "n": [2, 3, 4][:dim],
                              "center": [0.0, 1.5, -1.0][:dim], "limit": [2.0, 3.0, 2.5][:dim], "norm": norm})
    for n in range(1, 7 if q else 9):
        for w in (False, True):
            cases.append({"kind": "values", "n": n, "weights": w})
    ctx.workers = 8
    ctx.run(cases, "run_case", rule="one case per distribution; inside: closed-form comparison, negation, all compositions and integer "
            "chunk counts x lazy/eager; non-trivial = more than one sample")


def _t(x, d):
    return list(x) if isinstance(x, (list, tuple)) else [x] * d


def run_case(case):
    import abtem

    viol, tr, worst = [], 0, 0.0

    def bad(key, msg):
        if sum(1 for v in viol if v["key"] == key) < 2:
            viol.append({"key": key, "msg": "%s (%s)" % (msg, case)})

    def close(a, b, key, what):
        nonlocal worst
        a, b = np.asarray(a, float), np.asarray(b, float)
        if a.shape != b.shape:
            bad(key, "%s: shape %r, expected %r" % (what, a.shape, b.shape))
            return
        e = float(np.abs(a - b).max()) if a.size else 0.0
        worst = max(worst, e / TOL)
        if not e <= TOL * max(1.0, float(np.abs(b).max()) if b.size else 1.0):
            bad(key, "%s: got %r, expected %r" % (what, a.tolist(), b.tolist()))

    if case["kind"] == "uniform":
        lo, hi, n, ep = case["lo"], case["hi"], case["n"], case["endpoint"]
        d = abtem.distributions.uniform(lo, hi, n, endpoint=ep)
        step = (hi - lo) / ((n - 1) if ep else n) if (n > 1 or not ep) else 0.0
        close(d.values, [lo + i * step for i in range(n)], "uniform/values", "values")
        close(d.weights, [1.0] * n, "uniform/weights", "weights")
        if len(d) != n or d.shape != (n,) or d.dimensions != 1:
            bad("uniform/shape", "len/shape/dimensions %r %r %r" % (len(d), d.shape, d.dimensions))
        one_d = d
        tr += 1
    elif case["kind"] == "values":
        n = case["n"]
        vals = [0.5 * i * i - 1.0 for i in range(n)]
        w = [1.0 / (i + 1) for i in range(n)] if case["weights"] else None
        d = abtem.distributions.from_values(vals, weights=None if w is None else np.array(w))
        close(d.values, vals, "from_values/values", "values")
        close(d.weights, w if w else [1.0] * n, "from_values/weights", "weights")
        one_d = d
        tr += 1
    else:
        dim = case["dim"]
        sig, ns, cen, lim = _t(case["sigma"], dim), _t(case["n"], dim), _t(case["center"], dim), _t(case["limit"], dim)

        def arg(x):
            return tuple(x) if isinstance(x, list) else x

        d = abtem.distributions.gaussian(arg(case["sigma"]), arg(case["n"]), dimension=dim, center=arg(case["center"]),
                                         sampling_limit=arg(case["limit"]), normalize=case["norm"])
        tr += 1
        axes_v, axes_w = [], []
        for i in range(dim):
            n = ns[i]
            if n == 1:
                v = [cen[i]]  # a single sample symmetric about the centre is the centre itself
            else:
                v = [cen[i] - sig[i] * lim[i] + k * (2 * sig[i] * lim[i]) / (n - 1) for k in range(n)]
            w = [math.exp(-0.5 * ((x - cen[i]) / sig[i]) ** 2) for x in v]
            norm = math.sqrt(sum(x * x for x in w)) if case["norm"] == "intensity" else sum(w)
            axes_v.append(v)
            axes_w.append([x / norm for x in w])
        shape = tuple(ns)
        vals = np.zeros(shape + ((dim,) if dim > 1 else ()))
        wts = np.zeros(shape)
        for idx in itertools.product(*[range(n) for n in ns]):
            wts[idx] = math.prod(axes_w[i][idx[i]] for i in range(dim))
            if dim > 1:
                vals[idx] = [axes_v[i][idx[i]] for i in range(dim)]
            else:
                vals[idx] = axes_v[0][idx[0]]
        nkey = "gaussian/n=1-not-centred" if 1 in ns else "gaussian/values"
        close(d.values, vals, nkey, "values")
        close(d.weights, wts, "gaussian/weights" if 1 not in ns else "gaussian/n=1-weights", "weights")
        got_w = np.asarray(d.weights, float)
        tot = float((got_w ** 2).sum()) if case["norm"] == "intensity" else float(got_w.sum())
        if abs(tot - 1.0) > 1e-10:
            bad("gaussian/norm", "normalisation %r: total %r" % (case["norm"], tot))
        if d.dimensions != dim or tuple(d.shape) != shape:
            bad("gaussian/shape", "dimensions/shape %r %r, expected %r %r" % (d.dimensions, d.shape, dim, shape))
        # symmetry about the centre, per axis
        for i, sub in enumerate(d.distributions):
            v = np.asarray(sub.values, float) - cen[i]
            if not np.allclose(v, -v[::-1], atol=1e-12) or not np.allclose(sub.weights, np.asarray(sub.weights)[::-1], atol=1e-12):
                bad("gaussian/symmetry" if ns[i] > 1 else "gaussian/n=1-not-centred", "axis %d values %r are not symmetric about %r" % (i, sub.values.tolist(), cen[i]))
            if np.abs(v).max() > sig[i] * lim[i] * (1 + 1e-12):
                bad("gaussian/limit", "axis %d exceeds the sampling limit" % i)
        neg = -d
        close(neg.values, -np.asarray(d.values), "negation/values", "negated values")
        close(neg.weights, d.weights, "negation/weights", "weights after negation")
        one_d = d if dim == 1 else None
    nt = False
    if one_d is not None:
        v0, w0 = np.array(one_d.values, float), np.array(one_d.weights, float)
        n = len(v0)
        nt = n > 1
        neg = -one_d
        close(neg.values, -v0, "negation/values", "negated values")
        close(neg.weights, w0, "negation/weights", "weights after negation")
        close(one_d.values, v0, "negation/mutated", "receiver after negation")
        specs = [tuple(c) for c in compositions(n)] + list(range(1, n + 1))
        for spec in specs:
            for lazy in (False, True):
                tr += 1
                blocks = one_d.divide(spec, lazy=lazy)
                if lazy:
                    blocks = blocks.compute()
                bv = np.concatenate([np.asarray(b.values, float) for b in blocks])
                bw = np.concatenate([np.asarray(b.weights, float) for b in blocks])
                sizes = [len(b) for b in blocks]
                close(bv, v0, "divide/values", "concatenated block values for chunks %r lazy=%r" % (spec, lazy))
                close(bw, w0, "divide/weights", "concatenated block weights for chunks %r lazy=%r" % (spec, lazy))
                if isinstance(spec, tuple) and tuple(sizes) != spec:
                    bad("divide/sizes", "block sizes %r for chunks %r" % (sizes, spec))
                if isinstance(spec, int) and (len(sizes) != spec or max(sizes) - min(sizes) > 1):
                    bad("divide/sizes", "block sizes %r for %d chunks" % (sizes, spec))
                if any(b.ensemble_mean != one_d.ensemble_mean for b in blocks):
                    bad("divide/ensemble-mean", "blocks lost the ensemble_mean flag")
    else:
        nt = True
    return {"viol": viol, "obs": "%s:%s" % (case["kind"], "ok" if not viol else ",".join(sorted({v['key'] for v in viol}))), "nt": nt,
            "tr": tr, "ref": tr, "err": worst}
