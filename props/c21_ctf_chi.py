"""C21 — the CTF implements the polar aberration expansion.

Space: each of the 25 polar symbols alone (3 magnitudes x 4 azimuth offsets), every (C_nm, phi_nm) pair, all pairs of
distinct aberration terms, 3 dense sets, 3 energies, explicit samples alpha in {0, 1, 5, 10, 25 mrad} x 12 azimuths,
through Aberrations and CTF; every alias through every way of setting/reading a coefficient; defocus = -C10;
rotation of all azimuthal coefficients by delta vs evaluation at phi - delta; HISTORIES: every sequence (depth 2 quick / 3
thorough) of 16 setter events (attribute / alias / set_aberrations / Scherzer / energy change / copy) on one Aberrations, CTF or
Probe object, replayed in lock-step on a dict model.
Oracle: mc/ref/chi.py (generic sum over symbol names in float64), compared as complex numbers.
"""
import itertools

import numpy as np

META = dict(
    engines=["product", "bfs"],
    technique="exhaustive enumeration of aberration symbols, symbol pairs, aliases and access paths against a generic float64 reference polynomial",
    text="Every polar symbol alone, every symbol given as a 2-3 value series (ensemble axis) with and without an exact zero among the values, every pair of distinct aberration terms, dense sets, every alias via constructor kwarg / dict / attribute / "
         "set_aberrations / defocus, and the rotation identity are evaluated with Aberrations and CTF on a fixed 5 x 12 (alpha, phi) sample set "
         "for 1 (quick) or 3 energies and compared with exp(-2 pi i chi / lambda) from a reference that is generated from the symbol names. A breadth-first search over setter histories on one object "
         "(16 events, depth 2 / 3) replays a dict model in lock-step and requires kernel, coefficient dict and alias reads to agree after every step.",
    note="Bound: coefficient magnitudes chosen so that |2 pi chi / lambda| <= ~60 rad at 25 mrad (float32 phase accuracy); tolerance 5e-5 on a "
         "unit-modulus kernel. Larger phases lose float32 accuracy and are outside the bound.",
)
TOL = 5e-5
SCALE = {1: 200.0, 2: 2e3, 3: 2e5, 4: 2e6, 5: 2e8}
ALPHA = np.array([0.0, 1.0, 5.0, 10.0, 25.0]) * 1e-3
PHI = np.linspace(-np.pi, np.pi, 12, endpoint=False)


def terms():
    from abtem.transfer import polar_symbols

    return [s for s in polar_symbols if s.startswith("C")]


def nm(s):
    return int(s[1]), int(s[2])


def check(ctx):
    from abtem.transfer import polar_aliases

    T = terms()
    energies = [100e3] if ctx.quick else [60e3, 100e3, 300e3]
    cases = []
    for e in energies:
        for s in T:
            n, m = nm(s)
            for f in (1.0, -0.5, 0.31):
                for ph in ((0.0, 0.3, -1.1, np.pi / 2) if m else (0.0,)):
                    coef = {s: f * SCALE[n]}
                    if m:
                        coef["phi%d%d" % (n, m)] = ph
                    for cls in ("Aberrations", "CTF"):
                        cases.append({"kind": "kernel", "cls": cls, "energy": e, "coef": coef})
        for s, t in itertools.combinations(T, 2):
            coef = {}
            for k, (sym, f, ph) in enumerate(((s, 0.4, 0.7), (t, -0.3, -0.4))):
                n, m = nm(sym)
                coef[sym] = f * SCALE[n]
                if m:
                    coef["phi%d%d" % (n, m)] = ph
            cases.append({"kind": "kernel", "cls": "CTF", "energy": e, "coef": coef})
            cases.append({"kind": "rotation", "energy": e, "coef": coef, "delta": 0.2})
        for k in range(3):
            coef = {}
            for j, s in enumerate(T):
                n, m = nm(s)
                coef[s] = SCALE[n] * 0.12 * (1 if (j + k) % 2 else -1) * (1 + 0.1 * ((j * 7 + k) % 5))
                if m:
                    coef["phi%d%d" % (n, m)] = 0.37 * ((j + k) % 7) - 1.0
            for cls in ("Aberrations", "CTF"):
                cases.append({"kind": "kernel", "cls": cls, "energy": e, "coef": coef})
            for delta in (0.2, 1.0):
                cases.append({"kind": "rotation", "energy": e, "coef": coef, "delta": delta})
    # one coefficient given as a SERIES (ensemble axis), with and without an exact zero among its values: member k is the kernel of value k
    for s in T:
        n, m = nm(s)
        for ser in ([-1.0, 0.0, 1.0], [0.0, 1.0], [0.5, 1.0], [0.0, 0.0]):
            fixed = {"phi%d%d" % (n, m): 0.3} if m else {}
            for cls in ("Aberrations", "CTF"):
                cases.append({"kind": "series", "cls": cls, "energy": 100e3, "symbol": s, "values": [v * 0.4 * SCALE[n] for v in ser], "fixed": fixed})
        if m:
            for ser in ([-0.4, 0.0, 0.4], [0.0, 0.7]):
                for cls in ("Aberrations", "CTF"):
                    cases.append({"kind": "series", "cls": cls, "energy": 100e3, "symbol": "phi%d%d" % (n, m), "values": ser, "fixed": {s: 0.4 * SCALE[n]}})
    for alias, sym in polar_aliases.items():
        for how in ("kwarg", "dict", "attr", "set_aberrations"):
            for cls in ("Aberrations", "CTF"):
                cases.append({"kind": "alias", "alias": alias, "symbol": sym, "how": how, "cls": cls})
    cases.append({"kind": "scherzer"})
    # histories of edits on ONE object: every sequence of setter calls up to the depth; after every step the kernel must be the
    # reference polynomial of the coefficient set a boring dict model predicts (lock-step replay), through every access path
    for cls in ("Aberrations", "CTF", "Probe"):
        for first in range(len(HEVENTS)):
            cases.append({"kind": "history", "cls": cls, "first": first, "depth": 2 if ctx.quick else 3})
    ctx.workers = 8
    ctx.run(cases, "run_case", rule="kernel cases: (class, energy, coefficient set) evaluated on 5x12 (alpha, phi) samples; alias cases: "
            "(alias, way of setting, class); rotation cases; non-trivial = at least one non-zero coefficient")


# setter events: (how, name, value).  how: attr = setattr(obj, name, value); set = obj.set_aberrations({name: value}); energy / copy
HEVENTS = [("attr", "C10", 150.0), ("attr", "defocus", 80.0), ("attr", "C30", 1.5e5), ("attr", "Cs", -9e4), ("attr", "C12", 90.0), ("attr", "astigmatism", -40.0),
           ("attr", "phi12", 0.7), ("attr", "astigmatism_angle", -0.4), ("attr", "C21", 900.0), ("attr", "coma_angle", 1.1), ("attr", "C10", 0.0),
           ("set", "defocus", -60.0), ("set", "C30+phi12", None), ("set", "scherzer", None), ("energy", None, 60e3), ("copy", None, None)]


def _h_target(obj):
    """the object that carries the aberrations (a Probe delegates to its .aberrations)"""
    return getattr(obj, "aberrations", obj) if type(obj).__name__ == "Probe" else obj


def _h_apply(state, ev, model):
    """one REAL setter call on the live object; the same event on the dict model (returns the new model)"""
    import copy as _copy

    import abtem.transfer as T
    from abtem.transfer import polar_aliases

    how, name, val = ev
    obj = state["obj"]
    tgt = _h_target(obj)
    model = dict(model)
    coef = dict(model["coef"])
    if how == "attr":
        setattr(tgt, name, val)
        if name == "defocus":
            coef["C10"] = -val
        else:
            coef[polar_aliases.get(name, name)] = val
    elif how == "set" and name == "defocus":
        tgt.set_aberrations({"defocus": val})
        coef["C10"] = -val
    elif how == "set" and name == "C30+phi12":
        tgt.set_aberrations({"C30": 2.2e5, "astigmatism_angle": 0.25})
        coef["C30"], coef["phi12"] = 2.2e5, 0.25
    elif how == "set":  # Scherzer defocus from the CURRENT C30 and energy
        tgt.set_aberrations({"defocus": "scherzer"})
        coef["C10"] = -T.scherzer_defocus(coef.get("C30", 0.0), model["energy"])
    elif how == "energy":
        obj.energy = val
        model["energy"] = val
    else:
        state["obj"] = obj.copy() if hasattr(obj, "copy") else _copy.deepcopy(obj)
    model["coef"] = coef
    return model


def run_history(case):
    import abtem
    import abtem.transfer as T
    from mc.bfs import bfs
    from mc.ref import chi as R

    a, p = grids()
    a64, p64 = a.astype(np.float64), p.astype(np.float64)
    worst = [0.0]
    model0 = {"coef": {}, "energy": 100e3}

    def fresh():
        if case["cls"] == "Probe":
            obj = abtem.Probe(semiangle_cutoff=30.0, energy=100e3, gpts=(16, 16), extent=(8, 8))
        else:
            obj = getattr(T, case["cls"])(energy=100e3)
        return {"obj": obj, "model": dict(model0), "hist": []}

    def apply(s, ev):
        s["model"] = _h_apply(s, ev, s["model"])
        s["hist"].append(ev)
        return ev[0]

    def enabled(s):
        return HEVENTS if s["hist"] else [HEVENTS[case["first"]]]

    def canon(s):  # merged by model state: (coefficients, energy) is everything the future can depend on IF the object has no hidden state;
        # that claim is exactly what is tested, so two histories are merged only when their observed kernels are identical as well
        k = np.asarray(_h_target(s["obj"])._evaluate_from_angular_grid(a, p))
        return (tuple(sorted((k_, float(v)) for k_, v in s["model"]["coef"].items() if v != 0.0)), s["model"]["energy"], k.tobytes())

    def check(s, hist, ev, info, pre):
        out = []
        tgt = _h_target(s["obj"])
        coef, en = s["model"]["coef"], s["model"]["energy"]
        k = np.asarray(tgt._evaluate_from_angular_grid(a, p))
        ref = R.kernel(coef, a64, p64, R.wavelength(en))
        e = float(np.abs(k - ref).max())
        worst[0] = max(worst[0], e / TOL)
        if not e <= TOL:
            out.append(("history/kernel", "%s after %r: kernel differs from the reference polynomial of %r at %g eV by %.3g" % (case["cls"], list(hist) + [ev], coef, en, e)))
        got = {k_: v for k_, v in tgt.aberration_coefficients.items() if v != 0.0}
        want = {k_: v for k_, v in coef.items() if v != 0.0}
        if got != want:
            out.append(("history/coefficients", "%s after %r: aberration_coefficients %r, the dict model has %r" % (case["cls"], list(hist) + [ev], got, want)))
        if tgt.defocus != -tgt.C10 or tgt.Cs != tgt.C30 or tgt.astigmatism != tgt.C12:
            out.append(("history/alias-read", "alias reads disagree with symbol reads after %r" % (list(hist) + [ev],)))
        return out

    res = bfs(fresh, apply, enabled, canon, check, case["depth"])
    viol, seen = [], set()
    for key, msg, hist in res["violations"]:
        if key not in seen:
            seen.add(key)
            viol.append({"key": key, "msg": msg})
    return {"viol": viol, "obs": "%d states" % len(res["states"]), "st": len(res["states"]), "tr": res["transitions"], "ref": res["transitions"], "err": worst[0]}


def grids():
    a = np.broadcast_to(ALPHA[:, None], (5, 12)).astype(np.float32).copy()
    p = np.broadcast_to(PHI[None], (5, 12)).astype(np.float32).copy()
    return a, p


def evaluate(cls, energy, coef, phi_shift=0.0):
    import abtem.transfer as T

    obj = getattr(T, cls)(energy=energy, **coef)
    a, p = grids()
    p = (p - np.float32(phi_shift)).astype(np.float32)
    k = np.asarray(obj._evaluate_from_angular_grid(a, p))
    return k, a.astype(np.float64), p.astype(np.float64)


def run_case(case):
    import abtem.transfer as T
    from mc.ref import chi as R

    viol = []

    def bad(key, msg):
        viol.append({"key": key, "msg": msg})

    if case["kind"] == "history":
        return run_history(case)
    if case["kind"] == "kernel":
        coef = case["coef"]
        k, a, p = evaluate(case["cls"], case["energy"], coef)
        ref = R.kernel(coef, a, p, R.wavelength(case["energy"]))
        if k.shape != ref.shape:
            bad("kernel/shape", "kernel shape %r" % (k.shape,))
            return {"viol": viol}
        e = float(np.abs(k - ref).max())
        if not e <= TOL:
            i = np.unravel_index(np.argmax(np.abs(k - ref)), k.shape)
            syms = "+".join(sorted(s for s in coef if s.startswith("C")))
            bad("kernel/value/%s" % (syms if len(syms) < 12 else "dense"), "%s(%r) at alpha=%.4g phi=%.4g: got %r, reference %r (|d|=%.3g)" % (
                case["cls"], coef, a[i], p[i], complex(k[i]), complex(ref[i]), e))
        return {"viol": viol, "obs": "%.3g" % float(np.abs(np.angle(ref)).max()), "err": e / TOL, "tr": 1}
    if case["kind"] == "series":
        obj = getattr(T, case["cls"])(energy=case["energy"], **{case["symbol"]: np.array(case["values"], dtype=float)}, **case["fixed"])
        a, p = grids()
        k = np.asarray(obj._evaluate_from_angular_grid(a, p))
        if k.shape != (len(case["values"]),) + a.shape:
            bad("series/shape", "kernel shape %r for a %d-value series of %s" % (k.shape, len(case["values"]), case["symbol"]))
            return {"viol": viol}
        worst = 0.0
        for i, v in enumerate(case["values"]):
            coef = dict(case["fixed"])
            coef[case["symbol"]] = v
            ref = R.kernel(coef, a.astype(np.float64), p.astype(np.float64), R.wavelength(case["energy"]))
            e = float(np.abs(k[i] - ref).max())
            worst = max(worst, e)
            if not e <= TOL:
                bad("series/member-value", "%s with %s = series %r: member %d (value %r) differs from the kernel of that value by %.3g" % (
                    case["cls"], case["symbol"], case["values"], i, v, e))
                break
        return {"viol": viol, "obs": "series", "err": worst / TOL, "tr": len(case["values"]), "nt": any(case["values"])}
    if case["kind"] == "rotation":
        coef = case["coef"]
        d = case["delta"]
        rot = {s: (v + d if s.startswith("phi") else v) for s, v in coef.items()}
        k1, a, p = evaluate("CTF", case["energy"], rot)
        k2, _, _ = evaluate("CTF", case["energy"], coef, phi_shift=d)
        e = float(np.abs(k1 - k2).max())
        if not e <= 2 * TOL:
            bad("rotation", "rotating all azimuths by %r differs from evaluating at phi - delta by %.3g (%r)" % (d, e, coef))
        return {"viol": viol, "err": e / (2 * TOL), "tr": 2}
    if case["kind"] == "scherzer":
        c = T.CTF(energy=100e3, Cs=1.3e7)
        c.set_aberrations({"defocus": "scherzer"})
        want = T.scherzer_defocus(1.3e7, 100e3)
        if abs(c.defocus - want) > 1e-9 * abs(want) or abs(c.C10 + want) > 1e-9 * abs(want):
            bad("alias/scherzer", "defocus='scherzer' gives defocus %r C10 %r, expected %r" % (c.defocus, c.C10, want))
        return {"viol": viol, "tr": 1}
    # ---- aliases: every way of setting x every way of reading
    alias, sym, how = case["alias"], case["symbol"], case["how"]
    cls = getattr(T, case["cls"])
    val = 123.25 if sym.startswith("C") else 0.4375
    if how == "kwarg":
        obj = cls(energy=100e3, **{alias: val})
    elif how == "dict":
        obj = cls(energy=100e3, aberration_coefficients={alias: val})
    elif how == "attr":
        obj = cls(energy=100e3)
        setattr(obj, alias, val)
    else:
        obj = cls(energy=100e3)
        obj.set_aberrations({alias: val})
    want = -val if alias == "defocus" else val
    reads = {
        "symbol-attr": getattr(obj, sym),
        "dict": obj.aberration_coefficients[sym],
        "alias-attr": (-getattr(obj, alias)) if alias == "defocus" else getattr(obj, alias),
    }
    for name, got in reads.items():
        if got != want:
            bad("alias/%s/%s" % (how, name), "%s set via %s as %s=%r reads back %r through %s (expected %r)" % (
                case["cls"], how, alias, val, got, name, want))
    others = {s: v for s, v in obj.aberration_coefficients.items() if s != sym and v != 0.0}
    if others:
        bad("alias/side-effect", "setting %s also changed %r" % (alias, others))
    if obj.defocus != -obj.C10:
        bad("alias/defocus", "defocus %r != -C10 %r" % (obj.defocus, obj.C10))
    # and the symbol set directly must give the same object state
    ref = cls(energy=100e3, **{sym: want})
    if ref.aberration_coefficients != obj.aberration_coefficients:
        bad("alias/state", "alias and symbol construction differ")
    return {"viol": viol, "obs": "alias", "tr": 4}
