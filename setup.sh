#!/bin/bash
# Nothing to build: abTEM is an editable install of /repo and the checks are plain Python.
set -e
cd "$(dirname "$0")"
mkdir -p evidence replays
/venv/bin/python -c "import abtem, dask, numpy, jsonschema; print('abtem from', abtem.__file__)"
