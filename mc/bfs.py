"""Explicit-state breadth-first search in which every transition calls the real implementation.

A *state* is represented by the event history that reaches it: live abTEM objects carry caches and
references to module globals, so they are never copied; `fresh()` builds a new real object and the history
is replayed on it.  `canon(state)` must contain every field that can influence the future (the correctness
argument is given in the property module); histories with equal canon are merged.
"""
import hashlib


def bfs(fresh, apply, enabled, canon, check, max_depth, prefix=(), max_states=None):
    """
    fresh()                  -> new live state (real objects) in the initial configuration
    apply(state, ev)         -> info about the transition (e.g. 'ok' / 'raises:ValueError'); mutates state
    enabled(state)           -> list of events enabled in the state (small finite menu)
    canon(state)             -> hashable canonical form (complete w.r.t. futures)
    check(state, hist, ev, info, pre) -> list of (key, msg) violations for the transition just taken;
                                `pre` is whatever `observe(state)` returned before the transition (or None)
    prefix                   -> history to start from (used to partition the search over workers)
    Returns dict(states=set of state hashes, transitions, violations=[(key,msg,hist)], depth, capped, infos)
    """

    def build(hist):
        s = fresh()
        for ev in hist:
            apply(s, ev)
        return s

    def h(c):
        return hashlib.sha1(repr(c).encode()).hexdigest()[:16]

    s0 = build(prefix)
    seen = {h(canon(s0))}
    frontier = [tuple(prefix)]
    transitions = 0
    violations = []
    infos = {}
    capped = False
    depth_done = 0
    for depth in range(max_depth):
        nxt = []
        for hist in frontier:
            s = build(hist)
            evs = enabled(s)
            for i, ev in enumerate(evs):
                s2 = build(hist)  # never reuse a live state: it may alias module globals
                pre = canon(s2)
                info = apply(s2, ev)
                transitions += 1
                infos[str(info)] = infos.get(str(info), 0) + 1
                for key, msg in check(s2, hist, ev, info, pre) or []:
                    violations.append((key, msg, list(hist) + [ev]))
                k = h(canon(s2))
                if k not in seen:
                    seen.add(k)
                    nxt.append(hist + (ev,))
        depth_done = depth + 1
        frontier = nxt
        if not frontier:
            break
        if max_states and len(seen) > max_states:
            capped = True
            break
    return dict(states=seen, transitions=transitions, violations=violations, depth=depth_done, capped=capped,
                infos=infos, frontier_left=len(frontier))
