"""Preemption-bounded exploration INSIDE tasks (bound: one preemption, at abTEM function-call granularity).

The schedule explorer of mc/dasksched.py treats tasks as atomic.  Two tasks that share a mutable object without changing its
final content (a scratch buffer that each task zeroes, fills and reads) commute as whole tasks but not when one is preempted
between its write and its read - which is what dask's threaded scheduler can do.  This module makes that deterministic:

* the real graph is executed by our own `get` in dask's default order up to a scheduling point at which two abTEM tasks A and B
  are both ready;
* A runs in a thread of its own under `sys.settrace`; at its k-th *call event* into a function defined in the abtem package it is
  parked, B runs to completion in the main thread, then A resumes; the rest of the graph runs in default order;
* k ranges over EVERY call event of A (counted by a first, unpreempted traced run), for both roles (A preempted by B, B by A),
  and the final result of every run must equal the unpreempted one.

So every execution with exactly one preemption of one task by one complete other task, at abTEM call granularity, is covered for
the chosen task pair.  Not covered: preemptions inside NumPy / FFTW / numba code (no Python call events), more than one
preemption, more than two tasks in flight.
"""
import sys
import threading

import numpy as np

from mc.dasksched import _reaches_abtem


def kind(key):
    """task kind: the key name without its hash token"""
    import re

    name = str(key[0] if isinstance(key, tuple) else key)
    return re.sub(r"-[0-9a-f]{6,}$", "", name)


class PreemptRun:
    def __init__(self, point, ia, ib, k, nth_point=0, match=None):
        self.ia, self.ib, self.k, self.nth_point, self.match = ia, ib, k, nth_point, match
        self.point_kinds = []  # (kind of first candidate, kind of second candidate) at every scheduling point with >= 2 candidates
        self.calls_in_a = None
        self.pair = None
        self.used = False
        self.parked_at = None

    def get(self, expr, keys, **kwargs):
        import dask.order
        from dask._task_spec import convert_legacy_graph

        dsk = convert_legacy_graph(expr.__dask_graph__())
        deps = {k: set(t.dependencies) for k, t in dsk.items()}
        try:
            prio = dask.order.order(dsk)
        except Exception:  # noqa: BLE001
            prio = {k: i for i, k in enumerate(sorted(dsk, key=str))}
        heavy = {k for k, t in dsk.items() if _reaches_abtem(t)}
        data, done = {}, set()

        def call(k):
            return dsk[k]({d: data[d] for d in deps[k]})

        seen_points = 0
        while len(done) < len(dsk):
            ready = [k for k in dsk if k not in done and deps[k] <= done]
            light = sorted((k for k in ready if k not in heavy), key=lambda k: prio[k])
            if light:
                for k in light:
                    data[k] = call(k)
                    done.add(k)
                continue
            cand = sorted(ready, key=lambda k: prio[k])
            names = [str(c_[0] if isinstance(c_, tuple) else c_) for c_ in cand]
            if self.match is not None:  # only tasks whose key contains the pattern qualify (e.g. the fused multislice blocks)
                qual = [c_ for c_, nm in zip(cand, names) if self.match in nm]
                cand = qual + [c_ for c_ in cand if c_ not in qual] if len(qual) >= 2 else cand[:1]
            if len(cand) >= 2:
                self.point_kinds.append((kind(cand[0]), kind(cand[1])))
            if not self.used and len(cand) > max(self.ia, self.ib):
                if seen_points == self.nth_point:
                    a, b = cand[self.ia], cand[self.ib]
                    self.pair = (str(a[0] if isinstance(a, tuple) else a)[:40], str(b[0] if isinstance(b, tuple) else b)[:40])
                    ra, rb, n, parked = _run_pair(lambda: call(a), lambda: call(b), self.k)
                    self.calls_in_a, self.parked_at = n, parked
                    data[a], data[b] = ra, rb
                    done.update((a, b))
                    self.used = True
                    continue
                seen_points += 1
            k = cand[0]
            data[k] = call(k)
            done.add(k)

        def unpack(ks):
            return [unpack(x) for x in ks] if isinstance(ks, list) else data[ks]

        return unpack(keys)


SITES = []  # call sites (callee file:function @ caller line) of the last traced task, in call order


def _run_pair(fa, fb, k):
    """Run fa in a traced thread, park it at its k-th abtem call event (k < 0: never), run fb meanwhile, resume fa."""
    reached, resume = threading.Event(), threading.Event()
    box = {}
    count = [0]
    parked = [None]
    del SITES[:]

    def tracer(frame, event, arg):
        if event == "call" and "/abtem/" in frame.f_code.co_filename:
            if k < 0:
                back = frame.f_back
                SITES.append((frame.f_code.co_filename.rsplit("/", 1)[-1], frame.f_code.co_name, back.f_lineno if back is not None else 0))
            if count[0] == k:
                parked[0] = "%s:%s" % (frame.f_code.co_filename.rsplit("/", 1)[-1], frame.f_code.co_name)
                reached.set()
                resume.wait()
            count[0] += 1
        return None

    def body():
        sys.settrace(tracer)
        try:
            box["a"] = fa()
        except BaseException as e:  # noqa: BLE001
            box["a_exc"] = e
        finally:
            sys.settrace(None)
            reached.set()

    t = threading.Thread(target=body)
    t.start()
    reached.wait()
    try:
        box["b"] = fb()
    finally:
        resume.set()
        t.join()
    if "a_exc" in box:
        raise box["a_exc"]
    return box["a"], box["b"], count[0], parked[0]


def distinct_points(execute, match=None):
    """indices (nth_point) of the first scheduling point for every distinct pair of task kinds that are ready together"""
    r = PreemptRun(0, 0, 1, -1, nth_point=10 ** 9, match=match)
    execute(r.get)
    seen, out = set(), []
    for i, pk in enumerate(r.point_kinds):
        if pk not in seen:
            seen.add(pk)
            out.append((i, pk))
    return out


def explore_pair(execute, same, max_points=400, nth_point=0, match=None, chunk=(0, 1), roles=("A-preempted-by-B", "B-preempted-by-A"), sites=False):
    """execute(get) -> result.  chunk = (c, C): only the preemption points k with k % C == c are run (the caller distributes the chunks).
    Returns dict(runs, points, calls, exhaustive, deviating=[(role, k, parked_at)], pair)."""
    ref_run = PreemptRun(0, 0, 1, -1, nth_point, match)
    ref = execute(ref_run.get)
    if not ref_run.used:
        return dict(runs=1, points=0, calls=(0, 0), exhaustive=True, deviating=[], pair=None, note="no scheduling point with two ready abTEM tasks")
    out = dict(runs=1, deviating=[], pair=ref_run.pair, exhaustive=True)
    calls = []
    for role, (ia, ib) in (("A-preempted-by-B", (0, 1)), ("B-preempted-by-A", (1, 0))):
        if role not in roles:
            continue
        probe = PreemptRun(0, ia, ib, -1, nth_point, match)
        r0 = execute(probe.get)
        out["runs"] += 1
        n = probe.calls_in_a or 0
        calls.append(n)
        if not same(ref, r0):
            out["deviating"].append((role, -1, "order only"))
        if sites:  # one preemption point per DISTINCT call site (its first occurrence): every kind of window is opened at least once
            first, last = {}, {}
            for i, st in enumerate(list(SITES)):
                first.setdefault(st, i)
                last[st] = i
            pts = sorted(set(first.values()))
            out["distinct_call_sites"] = len(first)
            ks = [k for j, k in enumerate(pts) if j % chunk[1] == chunk[0]]
            max_points = None
            out["exhaustive"] = False
        else:
            ks = [k for k in range(n) if k % chunk[1] == chunk[0]]
        if max_points is not None and len(ks) > max_points:  # keep every call event of the first 3/4 of the budget's worth densely around ... no: uniform stride, reported as a cap
            stride = int(np.ceil(len(ks) / max_points))
            ks = ks[::stride]
            out["exhaustive"] = False
            out["stride"] = stride
        for k in ks:
            run = PreemptRun(0, ia, ib, k, nth_point, match)
            r = execute(run.get)
            out["runs"] += 1
            if not same(ref, r):
                out["deviating"].append((role, k, run.parked_at))
                if len(out["deviating"]) >= 3:
                    break
    out["calls"] = tuple(calls)
    out["points"] = out["runs"] - 1 - len(calls)
    return out
