"""Tolerance policy, array / axes / metadata comparison, deep snapshots, digests."""
import hashlib
import itertools
import os

import numpy as np


def seed():
    return int(os.environ.get("VERIF_SEED", "0"))


def rng(*salt):
    """Deterministic generator: VERIF_SEED only picks the representative inside a class, never the cases."""
    h = hashlib.sha1(repr(salt).encode()).digest()
    return np.random.default_rng([seed()] + list(h[:8]))


def err(a, b, rtol, atol=0.0):
    """max|a-b| / (atol + rtol*max|b|): <=1 means within tolerance. NaN-safe (nan pairs agree)."""
    a = np.asarray(a)
    b = np.asarray(b)
    if a.shape != b.shape:
        return float("inf")
    if a.size == 0:
        return 0.0
    d = np.abs(a.astype(np.complex128) - b.astype(np.complex128))
    both_nan = np.isnan(a) & np.isnan(b) if a.dtype.kind in "fc" and b.dtype.kind in "fc" else None
    if both_nan is not None and both_nan.any():
        d = np.where(both_nan, 0.0, d)
    same_inf = np.isinf(a) & (a == b) if a.dtype.kind in "fc" and b.dtype.kind in "fc" else None
    if same_inf is not None and same_inf.any():
        d = np.where(same_inf, 0.0, d)
    if np.isnan(d).any():
        return float("inf")
    finite_b = np.abs(b[np.isfinite(b)]) if b.dtype.kind in "fc" else np.abs(b)
    scale = atol + rtol * (float(finite_b.max()) if finite_b.size else 0.0)
    m = float(d.max())
    if m == 0.0:
        return 0.0
    if scale == 0.0:
        return float("inf")
    return m / scale


def digest(x):
    """Short structural digest of arrays / nested containers."""
    h = hashlib.sha1()

    def upd(o):
        if isinstance(o, np.ndarray):
            h.update(str(o.shape).encode())
            h.update(str(o.dtype).encode())
            if o.dtype == object:
                for e in o.ravel():
                    upd(e)
            else:
                h.update(np.ascontiguousarray(o).tobytes())
        elif isinstance(o, (list, tuple)):
            h.update(b"[")
            for e in o:
                upd(e)
            h.update(b"]")
        elif isinstance(o, dict):
            for k in sorted(o, key=str):
                h.update(str(k).encode())
                upd(o[k])
        elif hasattr(o, "array") and hasattr(o, "axes_metadata"):
            upd(np.asarray(o.array))
        else:
            h.update(repr(o).encode())

    upd(x)
    return h.hexdigest()[:12]


def axes_dicts(obj):
    """Axes metadata of an abTEM array object as plain comparable dicts."""
    from abtem.core.axes import axis_to_dict

    out = []
    for a in obj.axes_metadata:
        d = axis_to_dict(a)
        out.append(_plain(d))
    return out


def _plain(o):
    if isinstance(o, dict):
        return {str(k): _plain(v) for k, v in sorted(o.items(), key=lambda kv: str(kv[0]))}
    if isinstance(o, (list, tuple)):
        return [_plain(v) for v in o]
    if isinstance(o, np.ndarray):
        return _plain(o.tolist())
    if isinstance(o, (np.floating, float)):
        return round(float(o), 9)
    if isinstance(o, (np.integer,)):
        return int(o)
    if isinstance(o, (np.bool_,)):
        return bool(o)
    return o


def plain(o):
    return _plain(o)


def axes_close(a, b, rtol=1e-6):
    """Compare two plain axes-dict lists allowing float round-off."""

    def eq(x, y):
        if isinstance(x, dict) and isinstance(y, dict):
            return x.keys() == y.keys() and all(eq(x[k], y[k]) for k in x)
        if isinstance(x, list) and isinstance(y, list):
            return len(x) == len(y) and all(eq(p, q) for p, q in zip(x, y))
        if isinstance(x, float) or isinstance(y, float):
            try:
                return abs(float(x) - float(y)) <= rtol * max(1.0, abs(float(x)), abs(float(y)))
            except (TypeError, ValueError):
                return False
        return x == y

    return eq(a, b)


def snapshot_atoms(atoms):
    return (
        atoms.positions.copy(),
        np.asarray(atoms.cell).copy(),
        atoms.numbers.copy(),
        atoms.pbc.copy(),
        {k: np.array(v, copy=True) for k, v in atoms.arrays.items()},
        repr(sorted(atoms.info.items(), key=str)),
    )


def atoms_equal(s1, s2):
    if not (np.array_equal(s1[0], s2[0]) and np.array_equal(s1[1], s2[1]) and np.array_equal(s1[2], s2[2])):
        return False
    if not np.array_equal(s1[3], s2[3]) or s1[5] != s2[5]:
        return False
    if s1[4].keys() != s2[4].keys():
        return False
    return all(np.array_equal(s1[4][k], s2[4][k]) for k in s1[4])


def compositions(n):
    """All compositions (ordered partitions) of n as tuples; 2^(n-1) of them."""
    if n == 0:
        return [()]
    out = []
    for cuts in itertools.product([0, 1], repeat=n - 1):
        parts, cur = [], 1
        for c in cuts:
            if c:
                parts.append(cur)
                cur = 1
            else:
                cur += 1
        parts.append(cur)
        out.append(tuple(parts))
    return sorted(out, key=lambda p: (len(p), p))


def outcome(f, *a, **k):
    """('ok', value) or ('raises:Type', exc)."""
    try:
        return "ok", f(*a, **k)
    except Exception as e:  # noqa: BLE001
        return "raises:" + type(e).__name__, e
