"""Imported once by the multiprocessing fork server so that workers start with abTEM already loaded.
Nothing here may start threads or run numerical code."""
import warnings

warnings.filterwarnings("ignore")
import numpy  # noqa: F401,E402
import dask  # noqa: F401,E402
import abtem  # noqa: F401,E402
