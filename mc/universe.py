"""Small-scope universe shared by the simulation properties: named atoms, potentials, builders, detectors, scans.

Everything is referred to by name in JSON cases and constructed fresh in the worker (abTEM objects carry caches, so
they are never reused between cases)."""
import numpy as np

GPTS = (16, 12)
ENERGY = 100e3


def atoms(name, pbc=True):
    """Periodic structures (pbc=True, as ase's crystal builders produce them)."""
    import ase

    if name == "A0":
        return ase.Atoms("C", positions=[(1.3, 2.1, 1.0)], cell=(4, 4, 2), pbc=pbc)
    if name == "A1":
        return ase.Atoms("SiC", positions=[(0.5, 0.7, 1.0), (2.0, 1.5, 2.5)], cell=(4, 3, 4), pbc=pbc)
    if name == "A2":  # one atom exactly on a slice boundary (z=2 with 2 A slices), one at z=0, one at the cell edge
        return ase.Atoms("CSiC", positions=[(1.0, 1.0, 2.0), (2.5, 0.4, 0.0), (3.999, 2.0, 3.1)], cell=(4, 3, 4), pbc=pbc)
    if name == "A3":
        return ase.Atoms("Au", positions=[(2.0, 1.5, 1.7)], cell=(4, 3, 4), pbc=pbc)
    raise KeyError(name)


def frozen_phonons(name="A1", n=2, mean=False, seed=None, sigmas=0.1, directions="xyz"):
    import abtem

    seed = tuple(range(1, n + 1)) if seed is None else seed
    return abtem.FrozenPhonons(atoms(name), n, sigmas, seed=seed, ensemble_mean=mean, directions=directions)


def potential(name, exit_planes=None, gpts=GPTS, slice_thickness=2.0, atoms_name="A1"):
    """Named potentials.  exit_planes: None | int | list"""
    import abtem

    ep = tuple(exit_planes) if isinstance(exit_planes, list) else exit_planes
    st = tuple(slice_thickness) if isinstance(slice_thickness, list) else slice_thickness
    kw = dict(gpts=gpts, slice_thickness=st, exit_planes=ep)
    a = atoms(atoms_name)
    if name == "atoms":
        return abtem.Potential(a, **kw)
    if name == "finite":
        return abtem.Potential(a, projection="finite", **kw)
    if name == "fp2":
        return abtem.Potential(frozen_phonons(atoms_name, 2, False), **kw)
    if name == "fp2mean":
        return abtem.Potential(frozen_phonons(atoms_name, 2, True), **kw)
    if name == "fp3":
        return abtem.Potential(frozen_phonons(atoms_name, 3, False), **kw)
    if name == "fp1":
        return abtem.Potential(frozen_phonons(atoms_name, 1, False), **kw)
    if name == "ae2":
        return abtem.Potential(abtem.AtomsEnsemble(list(frozen_phonons(atoms_name, 2)), ensemble_mean=False), **kw)
    if name == "crystal":
        return abtem.CrystalPotential(abtem.Potential(a, gpts=gpts, slice_thickness=st), (1, 1, 2), exit_planes=ep)
    if name == "crystal_fp":
        return abtem.CrystalPotential(abtem.Potential(frozen_phonons(atoms_name, 2), gpts=gpts, slice_thickness=st), (1, 1, 2), seeds=(5, 6),
                                      exit_planes=ep, ensemble_mean=False)
    if name == "array":
        built = abtem.Potential(a, gpts=gpts, slice_thickness=st).build(lazy=False)
        return abtem.PotentialArray(np.array(built.array), slice_thickness=built.slice_thickness, extent=built.extent, exit_planes=ep)
    raise KeyError(name)


POTENTIALS = ["atoms", "finite", "fp2", "fp2mean", "fp1", "ae2", "crystal", "crystal_fp", "array"]


def detector(name):
    import abtem

    if name == "waves":
        return None
    if name == "annular":
        return abtem.AnnularDetector(5, 40)
    if name == "annular_frac":
        return abtem.AnnularDetector(7.5, 33.3)
    if name == "flex":
        return abtem.FlexibleAnnularDetector(step_size=2.0)
    if name == "seg":
        return abtem.SegmentedDetector(2, 4, 5, 40)
    if name == "pix":
        return abtem.PixelatedDetector(max_angle="valid")
    if name == "pix_full":
        return abtem.PixelatedDetector(max_angle="full")
    if name == "multi":
        return [abtem.AnnularDetector(5, 40), abtem.PixelatedDetector(max_angle="full")]
    raise KeyError(name)


DETECTORS = ["waves", "annular", "flex", "seg", "pix", "multi"]


def scan(name):
    import abtem

    if name == "none":
        return None
    if name == "point":
        return abtem.CustomScan([[1.0, 0.5]])
    if name == "custom":
        return abtem.CustomScan([[0.0, 0.0], [1.0, 1.0], [2.3, 1.7]])
    if name == "line":
        return abtem.LineScan(start=(0, 0), end=(2, 2), gpts=3, endpoint=False)
    if name == "grid":
        return abtem.GridScan(start=(0, 0), end=(2, 1.5), gpts=(2, 3))
    if name == "grid_ep":
        return abtem.GridScan(start=(0, 0), end=(2, 1.5), gpts=(2, 3), endpoint=True)
    raise KeyError(name)


SCANS = ["none", "point", "custom", "line", "grid"]


def builder(name):
    import abtem

    if name == "probe":
        return abtem.Probe(semiangle_cutoff=25, energy=ENERGY)
    if name == "probe_ab":
        return abtem.Probe(semiangle_cutoff=25, energy=ENERGY, C30=2e4, C12=20.0, phi12=0.3, soft=False)
    if name == "pw":
        return abtem.PlaneWave(energy=ENERGY)
    if name == "pw_norm":
        return abtem.PlaneWave(energy=ENERGY, normalize=True)
    if name == "pw_tilt":
        return abtem.PlaneWave(energy=ENERGY, tilt=(3.0, -2.0))
    raise KeyError(name)


def simulate(bname, pot, det, sc, lazy, max_batch="auto", scheduler=None):
    """Run builder.multislice and return a list of computed outputs."""
    b = builder(bname)
    kw = dict(lazy=lazy)
    if lazy:
        kw["max_batch"] = max_batch
    if bname.startswith("probe"):
        out = b.multislice(pot, scan=sc, detectors=det, **kw)
    else:
        out = b.multislice(pot, detectors=det, **kw)
    outs = out if isinstance(out, list) else [out]
    if lazy:
        ckw = {} if scheduler is None else {"scheduler": scheduler}
        outs = [o.compute(**ckw) for o in outs]
    return outs


def compare_results(a_list, b_list, rtol=2e-5, what=("eager", "lazy")):
    """Compare two lists of abTEM array objects: type, shape, values, axes metadata, metadata.
    Returns (why or None, max error / tolerance)."""
    from mc import compare as C

    if len(a_list) != len(b_list):
        return "number of outputs %d vs %d" % (len(a_list), len(b_list)), 0.0
    worst = 0.0
    for i, (a, b) in enumerate(zip(a_list, b_list)):
        if type(a) is not type(b):
            return "output %d: type %s vs %s" % (i, type(a).__name__, type(b).__name__), worst
        if a.shape != b.shape:
            return "output %d: shape %r vs %r" % (i, a.shape, b.shape), worst
        x, y = np.asarray(a.array), np.asarray(b.array)
        if x.dtype != y.dtype:
            return "output %d: dtype %s vs %s" % (i, x.dtype, y.dtype), worst
        e = C.err(x, y, rtol, atol=1e-30)
        worst = max(worst, e if e == e else float("inf"))
        if not e <= 1.0:
            return "output %d: values differ, max|%s-%s| = %.3g on max %.3g" % (
                i, what[0], what[1], float(np.abs(x - y).max()), float(np.abs(y).max())), worst
        ax, bx = C.axes_dicts(a), C.axes_dicts(b)
        if not C.axes_close(ax, bx):
            for k, (p, q) in enumerate(zip(ax, bx)):
                if not C.axes_close(p, q):
                    return "output %d: axes metadata differ at axis %d: %r vs %r" % (i, k, p, q), worst
            return "output %d: number of axes %d vs %d" % (i, len(ax), len(bx)), worst
        ma, mb = C.plain(dict(a.metadata)), C.plain(dict(b.metadata))
        if not C.axes_close(ma, mb):
            return "output %d: metadata differ: %r vs %r" % (i, ma, mb), worst
    return None, worst


def result_digest(outs):
    from mc.compare import digest

    return digest([np.asarray(o.array) for o in outs])


def digest_arrays(arrays):
    from mc.compare import digest

    return digest([np.asarray(a) for a in arrays])
