"""Reference polar aberration function (Kirkland 2nd ed. Eq. 2.22), driven by the symbol names:
chi(alpha, phi) = sum_{n,m} C_nm alpha^(n+1) cos(m (phi - phi_nm)) / (n + 1);  kernel = exp(-2 pi i chi / lambda)."""
import re

import numpy as np

SYM = re.compile(r"^C(\d)(\d)$")


def chi(coef, alpha, phi):
    alpha = np.asarray(alpha, dtype=np.float64)
    phi = np.asarray(phi, dtype=np.float64)
    out = np.zeros(np.broadcast(alpha, phi).shape)
    for s, v in coef.items():
        m_ = SYM.match(s)
        if not m_ or v == 0:
            continue
        n, m = int(m_.group(1)), int(m_.group(2))
        ph = float(coef.get("phi%d%d" % (n, m), 0.0)) if m > 0 else 0.0
        out = out + float(v) * alpha ** (n + 1) * np.cos(m * (phi - ph)) / (n + 1)
    return out


def kernel(coef, alpha, phi, wavelength):
    return np.exp(-2j * np.pi * chi(coef, alpha, phi) / wavelength)


def wavelength(e):
    h, c, e0, me = 6.62607015e-34, 299792458.0, 1.602176634e-19, 9.1093837015e-31
    return h * c / np.sqrt(e * e0 * (e * e0 + 2 * me * c * c)) * 1e10
