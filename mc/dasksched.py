"""A dask scheduler of our own: it owns the order in which the tasks of the REAL task graph run.

`dask.compute(..., scheduler=get)` hands `get` the expression; we materialise the graph
(`expr.__dask_graph__()` + `convert_legacy_graph`) and execute the Task objects ourselves, one at a time.

* tasks are *heavy* (their callable tree reaches an `abtem.*` function) or *light* (getitem, aliases, data nodes,
  concatenate, finalize ...).  Light tasks are executed as soon as they are ready, in canonical order; heavy tasks
  are the scheduling points.
* at every scheduling point the ready heavy tasks are sorted by dask's own static order (`dask.order.order`), so
  choice 0 everywhere reproduces dask's preferred sequential schedule; a schedule is the list of choice indices.
* `explore()` enumerates schedules statelessly: it replays a prefix of choices on a freshly built graph, takes
  choice 0 afterwards, and branches on every alternative (all linear extensions of the heavy-task partial order when
  their number is <= cap, otherwise all schedules with <= `deviations` non-default choices — iterative context
  bounding).  Divergence while replaying a prefix is a hard error.
* mutation monitor (as refined): additions of entries to containers of shared objects (memoisation fills) are recorded separately and
  are not mutations; changes of existing content are.
* mutation monitor: a structural digest of every input of a task is taken before and after the task runs; a task
  that changes an input that has another consumer (or is a requested output) makes the result order dependent and is
  reported even if this run's numbers agree.
"""
import functools
import hashlib
import pickle

import numpy as np


class ScheduleDivergence(RuntimeError):
    pass


def _digest(x):
    try:
        return hashlib.sha1(pickle.dumps(x, protocol=4)).hexdigest()
    except Exception:  # noqa: BLE001
        return "unpicklable:" + type(x).__name__


def _snapshot(x):
    try:
        return pickle.dumps(x, protocol=4)
    except Exception:  # noqa: BLE001
        return None


def _diff(a, b, path="", out=None, depth=0):
    """Where do two structures differ (first few paths)."""
    if out is None:
        out = []
    if len(out) >= 4 or depth > 8:
        return out
    if type(a) is not type(b):
        out.append("%s: type %s -> %s" % (path, type(a).__name__, type(b).__name__))
    elif isinstance(a, np.ndarray):
        if a.dtype == object:
            if a.shape != b.shape:
                out.append("%s: shape %r -> %r" % (path, a.shape, b.shape))
            else:
                for i, (x, y) in enumerate(zip(a.ravel(), b.ravel())):
                    _diff(x, y, "%s[%d]" % (path, i), out, depth + 1)
        elif a.shape != b.shape or a.dtype != b.dtype or not np.array_equal(a, b, equal_nan=a.dtype.kind in "fc"):
            out.append("%s: array %s%r changed (max |d| %s)" % (path, a.dtype, a.shape, np.abs(a - b).max() if a.shape == b.shape else "?"))
    elif isinstance(a, dict):
        for k in sorted(set(a) | set(b), key=str):
            if k not in a or k not in b:
                out.append("%s.%s: %s" % (path, k, "added" if k not in a else "removed"))
            else:
                _diff(a[k], b[k], "%s.%s" % (path, k), out, depth + 1)
    elif isinstance(a, (list, tuple)):
        if len(a) != len(b):
            out.append("%s: length %d -> %d" % (path, len(a), len(b)))
        for i, (x, y) in enumerate(zip(a, b)):
            _diff(x, y, "%s[%d]" % (path, i), out, depth + 1)
    elif hasattr(a, "__dict__") and not callable(a):
        _diff(vars(a), vars(b), path + "<" + type(a).__name__ + ">", out, depth + 1)
    else:
        try:
            if a != b:
                out.append("%s: %r -> %r" % (path, a, b))
        except Exception:  # noqa: BLE001
            pass
    return out


def _reaches_abtem(obj, depth=0, seen=None):
    from dask._task_spec import Alias, DataNode, Task

    if seen is None:
        seen = set()
    if depth > 12 or id(obj) in seen:
        return False
    seen.add(id(obj))
    if isinstance(obj, (Alias, DataNode)):
        return False
    if isinstance(obj, Task):
        return any(_reaches_abtem(o, depth + 1, seen) for o in (obj.func, obj.args, obj.kwargs))
    if isinstance(obj, functools.partial):
        return any(_reaches_abtem(o, depth + 1, seen) for o in (obj.func, obj.args, obj.keywords))
    if isinstance(obj, dict):
        return any(_reaches_abtem(o, depth + 1, seen) for o in obj.values())
    if isinstance(obj, (list, tuple, set, frozenset)):
        return any(_reaches_abtem(o, depth + 1, seen) for o in obj)
    if callable(obj):
        mod = getattr(obj, "__module__", None) or ""
        if mod.startswith("abtem"):
            return True
        self_ = getattr(obj, "__self__", None)
        if self_ is not None and (type(self_).__module__ or "").startswith("abtem"):
            return True
        wrapped = getattr(obj, "__wrapped__", None)
        if wrapped is not None:
            return _reaches_abtem(wrapped, depth + 1, seen)
    return False


class Run:
    """One complete execution of a graph under a given list of choices."""

    def __init__(self, choices, monitor=True):
        self.choices = list(choices)
        self.monitor = monitor
        self.points = []  # number of alternatives at each scheduling point
        self.taken = []  # choice taken at each scheduling point
        self.order = []  # heavy task names in execution order
        self.mutations = []
        self.memo_fills = []
        self.n_tasks = 0
        self.n_heavy = 0

    def get(self, expr, keys, **kwargs):
        import dask.order
        from dask._task_spec import convert_legacy_graph

        dsk = convert_legacy_graph(expr.__dask_graph__())
        deps = {k: set(t.dependencies) for k, t in dsk.items()}
        consumers = {k: 0 for k in dsk}
        for k, ds in deps.items():
            for d in ds:
                consumers[d] += 1
        outs = set()

        def collect(ks):
            if isinstance(ks, list):
                for x in ks:
                    collect(x)
            else:
                outs.add(ks)

        collect(keys)
        try:
            prio = dask.order.order(dsk)
        except Exception:  # noqa: BLE001
            prio = {k: i for i, k in enumerate(sorted(dsk, key=str))}
        heavy = {k for k, t in dsk.items() if _reaches_abtem(t)}
        self.n_tasks, self.n_heavy = len(dsk), len(heavy)
        # the structure every schedule of this graph is derived from (dry enumeration in explore()); index-based so that it
        # does not depend on key names
        idx = {k: i for i, k in enumerate(sorted(dsk, key=lambda k: prio[k]))}
        self.struct = ([sorted(idx[d] for d in deps[k]) for k in sorted(dsk, key=lambda k: prio[k])], sorted(idx[k] for k in heavy))
        data, done = {}, set()
        point = 0

        def run_task(k):
            t = dsk[k]
            inp = {d: data[d] for d in deps[k]}
            before = {d: _snapshot(v) for d, v in inp.items()} if (self.monitor and k in heavy) else None
            data[k] = t(inp)
            if before is not None:
                for d, v in inp.items():
                    if before[d] is not None and _snapshot(v) != before[d] and (consumers[d] > 1 or d in outs):
                        what = _diff(pickle.loads(before[d]), v)
                        if what and all(w.endswith(": added") or ": type NoneType -> " in w for w in what):
                            # pure memoisation: entries were ADDED to a container of a shared object, or an unset (None) attribute was initialised
                            # lazily, and nothing that existed was changed.
                            # Such a fill cannot change what another task computes unless the entry is wrong, and a wrong entry shows up as a
                            # schedule-dependent outcome, which the explorer compares anyway.  Recorded, not reported as a mutation.
                            self.memo_fills.append((str(k[0] if isinstance(k, tuple) else k)[:40], what[:2]))
                        elif what:  # byte-level pickle differences without a structural difference (memo order) are ignored
                            self.mutations.append((str(k[0] if isinstance(k, tuple) else k)[:40], str(d[0] if isinstance(d, tuple) else d)[:30], what))
            done.add(k)

        while len(done) < len(dsk):
            ready = [k for k in dsk if k not in done and deps[k] <= done]
            if not ready:
                raise RuntimeError("deadlock: no ready task (cyclic graph?)")
            light = sorted((k for k in ready if k not in heavy), key=lambda k: prio[k])
            if light:
                for k in light:
                    run_task(k)
                continue
            cand = sorted(ready, key=lambda k: prio[k])
            if point < len(self.choices):
                c = self.choices[point]
                if c >= len(cand):
                    raise ScheduleDivergence("replayed choice %d at point %d but only %d tasks are ready" % (c, point, len(cand)))
            else:
                c = 0
            self.points.append(len(cand))
            self.taken.append(c)
            k = cand[c]
            self.order.append(str(k[0] if isinstance(k, tuple) else k)[:24] + str(k[1:] if isinstance(k, tuple) else ""))
            run_task(k)
            point += 1

        def unpack(ks):
            return [unpack(x) for x in ks] if isinstance(ks, list) else data[ks]

        return unpack(keys)


class _Clusters:
    """Distinct outcomes under a comparator (results may differ in the last bits when an FFT library picks another
    code path for a differently aligned buffer; `same` decides what counts as one outcome)."""

    def __init__(self, same):
        self.same = same
        self.reps = []

    def add(self, value):
        for i, r in enumerate(self.reps):
            if self.same(r, value):
                return i
        self.reps.append(value)
        return len(self.reps) - 1


def dry_run(struct, choices):
    """Mirror of Run.get's scheduling logic WITHOUT executing anything: tasks are indices in priority order.
    Returns (points, taken) for the schedule that replays `choices` and takes choice 0 afterwards."""
    deps, heavy = struct
    heavy = set(heavy)
    n = len(deps)
    remaining = [len(d) for d in deps]
    users = [[] for _ in range(n)]
    for k, ds in enumerate(deps):
        for d in ds:
            users[d].append(k)
    done = [False] * n
    ready_light = sorted(k for k in range(n) if not remaining[k] and k not in heavy)
    ready_heavy = sorted(k for k in range(n) if not remaining[k] and k in heavy)
    points, taken = [], []
    ndone = 0

    def finish(k):
        nonlocal ndone
        done[k] = True
        ndone += 1
        for u in users[k]:
            remaining[u] -= 1
            if remaining[u] == 0:
                (ready_heavy if u in heavy else ready_light).append(u)

    while ndone < n:
        if ready_light:
            batch = sorted(ready_light)
            del ready_light[:]
            for k in batch:
                finish(k)
            continue
        if not ready_heavy:
            raise RuntimeError("deadlock: no ready task (cyclic graph?)")
        ready_heavy.sort()
        p = len(taken)
        c = choices[p] if p < len(choices) else 0
        if c >= len(ready_heavy):
            raise ScheduleDivergence("dry run: choice %d at point %d but only %d tasks are ready" % (c, p, len(ready_heavy)))
        points.append(len(ready_heavy))
        taken.append(c)
        finish(ready_heavy.pop(c))
    return points, taken


def _children(struct, prefix):
    """All schedules obtained from `prefix` (+ defaults) by ONE more non-default choice at a point after the prefix."""
    points, taken = dry_run(struct, prefix)
    for i in range(len(prefix), len(points)):
        for alt in range(1, points[i]):
            yield taken[:i] + [alt]


def count_linear_extensions(struct, limit):
    """Number of complete schedules (linear extensions of the heavy tasks), counted by dry runs; stops at limit + 1."""
    n = 0
    stack = [[]]
    while stack:
        pre = stack.pop()
        n += 1
        if n > limit:
            return n
        stack.extend(_children(struct, pre))
    return n


def explore(execute, cap=120, deviations=1, monitor=True, max_runs=None, same=None):
    """
    execute(get) -> result: builds a FRESH lazy object and computes it with scheduler=get.
    same(a, b) -> bool decides whether two results are the same outcome (default ==).

    The schedule space is enumerated on the graph STRUCTURE (dry runs, microseconds each) and then every enumerated schedule
    is executed for real; a real run whose scheduling points differ from the dry prediction is a ScheduleDivergence.
    * at most `cap` linear extensions: all of them are executed (exhaustive);
    * otherwise iterative deviation bounding: all schedules with 0, then exactly 1, then exactly 2 ... non-default choices,
      level by level up to `deviations`; a level is only started when it fits completely into the remaining `max_runs`
      budget, so `bound` is always a COMPLETED level and nothing capped is called exhaustive.
    Returns dict(runs, exhaustive, bound, level_sizes, skipped_level, outcomes, mutations, heavy, tasks).
    """
    clusters = _Clusters(same or (lambda a, b: a == b))
    results, mutations, info = {}, [], {}
    memo = []

    def run(choices, expect=None):
        r = Run(choices, monitor=monitor)
        out = clusters.add(execute(r.get))
        if r.taken[: len(choices)] != list(choices):
            raise ScheduleDivergence("prefix %r replayed as %r" % (choices, r.taken[: len(choices)]))
        if expect is not None and (r.points, r.taken) != expect:
            raise ScheduleDivergence("real run of %r has scheduling points %r, the structural enumeration predicted %r" % (choices, r.points, expect[0]))
        results[tuple(r.taken)] = out
        mutations.extend(r.mutations)
        memo.extend(r.memo_fills)
        info.setdefault("heavy", r.n_heavy)
        info.setdefault("tasks", r.n_tasks)
        return r

    first = run([])
    struct = first.struct
    if dry_run(struct, []) != (first.points, first.taken):
        raise ScheduleDivergence("the dry run of the default schedule does not reproduce the real one")
    budget = max_runs if max_runs is not None else max(cap, 1)
    total = count_linear_extensions(struct, cap)
    level_sizes, skipped = [], None
    if total <= cap:
        stack = [[]]
        while stack:
            pre = stack.pop()
            if pre:
                run(pre, expect=dry_run(struct, pre))
            stack.extend(_children(struct, pre))
        exhaustive, bound = True, None
        level_sizes = [len(results)]
    else:
        exhaustive, bound = False, 0
        level = [[]]
        level_sizes = [1]
        used = 1
        for b in range(1, deviations + 1):
            nxt = [c for pre in level for c in _children(struct, pre)]
            if used + len(nxt) > budget:
                skipped = {"deviations": b, "schedules": len(nxt)}
                break
            for pre in nxt:
                run(pre, expect=dry_run(struct, pre))
            used += len(nxt)
            level_sizes.append(len(nxt))
            level, bound = nxt, b
    # determinism of replay: the default schedule once more, without the monitor
    b2 = Run(list(first.taken), monitor=False)
    again = clusters.add(execute(b2.get))
    if again != results[tuple(first.taken)] or b2.taken != first.taken:
        raise ScheduleDivergence("replaying the default schedule twice gave different observations")
    return dict(runs=len(results), exhaustive=exhaustive, bound=bound, level_sizes=level_sizes, skipped_level=skipped,
                linear_extensions=total if total <= cap else ">%d" % cap,
                outcomes=[clusters.reps[i] for i in sorted(set(results.values()))], mutations=mutations, memo_fills=memo,
                heavy=info.get("heavy", 0), tasks=info.get("tasks", 0), schedules=sorted(results)[:3])
