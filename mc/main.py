"""Entry point of the bounded-exhaustive checks:  ./check CNN --tier quick|thorough  |  ./check CNN --replay <file>"""
import argparse
import glob
import importlib
import json
import os
import sys
import time
import traceback

HERE = os.path.dirname(os.path.abspath(__file__))
ROOT = os.path.dirname(HERE)
sys.path.insert(0, ROOT)

from mc import runner  # noqa: E402


def load_module(pid):
    hits = sorted(glob.glob(os.path.join(ROOT, "props", pid.lower() + "_*.py")))
    if not hits:
        print("no property module for", pid)
        sys.exit(2)
    name = "props." + os.path.basename(hits[0])[:-3]
    return importlib.import_module(name), name


def main():
    ap = argparse.ArgumentParser()
    ap.add_argument("pid")
    ap.add_argument("--tier", default=os.environ.get("VERIF_TIER", "quick"), choices=["quick", "thorough"])
    ap.add_argument("--replay", default=None)
    ap.add_argument("--workers", type=int, default=int(os.environ.get("VERIF_WORKERS", "16")))
    args = ap.parse_args()
    pid = args.pid.upper()
    seed = int(os.environ.get("VERIF_SEED", "0"))
    mod, modname = load_module(pid)
    if args.replay:
        sys.exit(runner.replay(pid, mod, modname, args.replay, seed))
    t0 = time.time()
    ctx = runner.Context(pid, modname, args.tier, seed, args.workers)
    try:
        mod.check(ctx)
        rc = ctx.finish(time.time() - t0)
    except Exception:
        traceback.print_exc()
        ctx.close()
        print("HARNESS-ERROR property=%s" % pid)
        rc = 2
    sys.exit(rc)


if __name__ == "__main__":
    main()
