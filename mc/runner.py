"""Runner shared by all property modules: worker pool, result bookkeeping, evidence, findings, replay files.

A property module (props/cNN_*.py) defines

    check(ctx)            builds the finite case space(s) and calls ctx.run(cases, "run_case", rule=...)
    run_case(case)        executes ONE case against the real implementation + oracle, returns a result dict

Result dict (all keys optional except 'viol'):
    viol   list of {"key": finding-key, "msg": text, ["case": replay case], ["func": replay function]}
    obs    digest/string of what was observed (counted as distinct outcomes)
    nt     bool: the case is non-trivial by the module's stated rule
    tr     int: number of implementation calls (transitions) executed for the case
    st     int: number of distinct states visited inside the case (history explorers), default 1
    ref    int: number of reference-model / differential comparisons made, default 1
    err    float: largest observed error as a fraction of the tolerance (head-room)
    notes  list of observation strings (never verdicts)
"""
import concurrent.futures as cf
import collections
import hashlib
import importlib
import json
import multiprocessing as mp
import os
import re
import sys
import time
import traceback

ROOT = os.path.dirname(os.path.dirname(os.path.abspath(__file__)))
_INITIALISED = False


def worker_init():
    """Once per process: quiet warnings, synchronous dask, no progress bars."""
    global _INITIALISED
    if _INITIALISED:
        return
    import warnings

    warnings.filterwarnings("ignore")
    if ROOT not in sys.path:
        sys.path.insert(0, ROOT)
    import dask

    dask.config.set(scheduler="synchronous")
    import abtem

    abtem.config.set({"diagnostics.progress_bar": False, "diagnostics.task_progress": False})
    _INITIALISED = True


def _crash_result(exc):
    tb = traceback.extract_tb(exc.__traceback__)
    site = "?"
    for fr in reversed(tb):
        if "/abtem/" in fr.filename:
            site = "%s:%s" % (os.path.basename(fr.filename), fr.name)
            break
    else:
        if tb:
            site = "%s:%s" % (os.path.basename(tb[-1].filename), tb[-1].name)
    msg = "".join(traceback.format_exception(type(exc), exc, exc.__traceback__))[-1500:]
    return {"viol": [{"key": "crash/%s@%s" % (type(exc).__name__, site), "msg": msg}], "obs": "crash", "nt": True}


def _run_batch(modname, fname, batch, seed):
    worker_init()
    os.environ["VERIF_SEED"] = str(seed)
    mod = importlib.import_module(modname)
    f = getattr(mod, fname)
    out = []
    for case in batch:
        try:
            r = f(case)
            if r is None:
                r = {"viol": []}
        except Exception as exc:  # an exception escaping the harness is reported as a violation of its own class
            r = _crash_result(exc)
        out.append(r)
    return out


def canon(case):
    return json.dumps(case, sort_keys=True, default=str)


class Context:
    def __init__(self, pid, modname, tier, seed, workers=16):
        self.pid, self.modname, self.tier, self.seed, self.workers = pid, modname, tier, seed, workers
        self.quick = tier == "quick"
        self.pool = None
        self.evaluations = 0
        self.states = set()
        self.extra_states = 0
        self.transitions = 0
        self.refs = 0
        self.nontrivial = set()
        self.outcomes = collections.Counter()
        self.violations = []  # (key, msg, case, func)
        self.notes = collections.Counter()
        self.samples = []
        self.max_err = 0.0
        self.rules = []
        self.exhaustive = True
        self.caps = []
        self.extra = {}
        self.assumptions = []
        self.spaces = []

    # ------------------------------------------------------------------ pool
    def _pool(self):
        if self.pool is None:
            ctx = mp.get_context("forkserver")
            ctx.set_forkserver_preload(["mc.preload"])  # abTEM is imported once in the fork server, workers fork from it
            self.pool = cf.ProcessPoolExecutor(self.workers, mp_context=ctx)
        return self.pool

    def close(self):
        if self.pool is not None:
            self.pool.shutdown(wait=False, cancel_futures=True)
            self.pool = None

    def map(self, fname, cases, batch=None, inline=False):
        """Run modname.fname(case) for every case (order preserved)."""
        cases = list(cases)
        if not cases:
            return []
        if inline or self.workers <= 1:
            return _run_batch(self.modname, fname, cases, self.seed)
        if batch is None:
            batch = max(1, min(64, len(cases) // (self.workers * 6) or 1))
        chunks = [cases[i : i + batch] for i in range(0, len(cases), batch)]
        pool = self._pool()
        futs = [pool.submit(_run_batch, self.modname, fname, ch, self.seed) for ch in chunks]
        out = []
        for fu in futs:
            out.extend(fu.result(timeout=7200))
        return out

    # ------------------------------------------------------------- recording
    def run(self, cases, fname="run_case", rule=None, batch=None, inline=False, space=None):
        """Enumerate `cases` completely, execute each against the implementation, record everything."""
        cases = list(cases)
        seen, uniq = set(), []
        for c in cases:
            k = canon(c)
            if k not in seen:
                seen.add(k)
                uniq.append(c)
        t0 = time.time()
        results = self.map(fname, uniq, batch=batch, inline=inline)
        for c, r in zip(uniq, results):
            self.record(c, r, fname)
        if rule:
            self.rules.append(rule)
        self.spaces.append({"space": space or fname, "cases": len(uniq), "wall_s": round(time.time() - t0, 2)})
        return results

    def record(self, case, r, fname="run_case"):
        k = canon(case)
        self.evaluations += 1
        self.states.add(hashlib.sha1((fname + k).encode()).hexdigest())
        self.extra_states += max(0, int(r.get("st", 1)) - 1)
        self.transitions += int(r.get("tr", 1))
        self.refs += int(r.get("ref", 1))
        if r.get("nt", True):
            self.nontrivial.add(k)
        self.outcomes[str(r.get("obs", "ok"))] += 1
        e = float(r.get("err", 0.0) or 0.0)
        if not r.get("viol"):  # head-room is reported over the cases that hold
            self.max_err = max(self.max_err, min(e, 1e30) if e == e else 1e30)
        for n in r.get("notes", []) or []:
            self.notes[n] += 1
        for v in r.get("viol", []) or []:
            self.violations.append((v["key"], v.get("msg", ""), v.get("case", case), v.get("func", fname)))
        if len(self.samples) < 3 or (self.evaluations % 997 == 0 and len(self.samples) < 8):
            self.samples.append({"func": fname, "case": case, "observed": str(r.get("obs", "ok"))[:120]})

    def violation(self, key, msg, case, func="run_case"):
        self.violations.append((key, msg, case, func))

    def note(self, text, n=1):
        self.notes[text] += n

    def cap(self, text):
        self.exhaustive = False
        self.caps.append(text)

    # ---------------------------------------------------------------- finish
    def finish(self, wall):
        self.close()
        known = load_findings(self.pid)
        by_key = collections.OrderedDict()
        for key, msg, case, func in self.violations:
            by_key.setdefault(key, []).append((msg, case, func))
        rc = 0
        unlisted = 0
        rdir = os.path.join(ROOT, "replays", self.pid)
        lines = []
        for key, items in by_key.items():
            if key in known:
                print("KNOWN-FINDING: property=%s %s: %s (%d cases this run)" % (self.pid, key, known[key], len(items)))
                continue
            unlisted += len(items)
            rc = 1
            os.makedirs(rdir, exist_ok=True)
            msg, case, func = items[0]
            path = os.path.join(rdir, re.sub(r"[^A-Za-z0-9_.+-]", "_", key)[:80] + ".json")
            with open(path, "w") as f:
                json.dump({"property": self.pid, "key": key, "func": func, "case": case, "msg": msg, "seed": self.seed,
                           "count": len(items)}, f, indent=1, default=str)
            lines.append("VIOLATION property=%s replay=%s" % (self.pid, path))
            print("  key=%s cases=%d first: %s" % (key, len(items), msg.strip().splitlines()[-1][:300] if msg.strip() else ""))
        for ln in lines[:25]:
            print(ln)
        states = len(self.states) + self.extra_states
        cov = {
            "states": states,
            "transitions": self.transitions,
            "traces_validated_against_impl": self.refs,
            "samples": self.samples,
            "exhaustive": bool(self.exhaustive),
            "evaluations": self.evaluations,
            "distinct_nontrivial": len(self.nontrivial),
            "rule": " | ".join(self.rules) or "full Cartesian product of the module's alphabets",
            "distinct_outcomes": len(self.outcomes),
            "outcome_histogram_top": dict(self.outcomes.most_common(8)),
            "caps_hit": self.caps,
            "spaces": self.spaces,
            "max_observed_error_over_tolerance": round(self.max_err, 6),
            "observations": dict(self.notes.most_common(40)),
            "violation_keys": {k: len(v) for k, v in by_key.items()},
            "known_findings_seen": [k for k in by_key if k in known],
        }
        cov.update(self.extra)
        ev = {
            "property_id": self.pid,
            "tier": self.tier,
            "seed": self.seed,
            "level": "model_checking",
            "coverage": cov,
            "assumptions": self.assumptions,
            "wall_s": round(wall, 2),
            "violations": unlisted,
        }
        os.makedirs(os.path.join(ROOT, "evidence"), exist_ok=True)
        path = os.path.join(ROOT, "evidence", self.pid + ".json")
        with open(path, "w") as f:
            json.dump(ev, f, indent=1, default=str)
        validate_evidence(path)
        print("%s tier=%s seed=%d cases=%d states=%d transitions=%d refs=%d nontrivial=%d outcomes=%d max_err/tol=%.3g "
              "violations=%d known=%d wall=%.1fs exhaustive=%s" % (
                  self.pid, self.tier, self.seed, self.evaluations, states, self.transitions, self.refs,
                  len(self.nontrivial), len(self.outcomes), self.max_err, unlisted,
                  len(cov["known_findings_seen"]), wall, self.exhaustive))
        return rc


def load_findings(pid):
    path = os.path.join(ROOT, "known_findings.json")
    if not os.path.exists(path):
        return {}
    data = json.load(open(path))
    return {e["key"]: e["what"] for e in data.get("findings", []) if e["property"] == pid and e.get("status") == "open"}


def validate_evidence(path):
    try:
        import jsonschema

        schema = json.load(open("/root/.vp/EVIDENCE.schema.json"))
        jsonschema.validate(json.load(open(path)), schema)
    except ImportError:
        pass
    except FileNotFoundError:
        pass


def replay(pid, mod, modname, path, seed):
    data = json.load(open(path))
    os.environ["VERIF_SEED"] = str(data.get("seed", seed))
    worker_init()
    f = getattr(mod, data.get("func", "run_case"))
    print("replaying %s key=%s func=%s" % (pid, data.get("key"), data.get("func")))
    print("case:", json.dumps(data["case"], default=str)[:2000])
    try:
        r = f(data["case"]) or {"viol": []}
    except Exception as exc:
        r = _crash_result(exc)
    known = load_findings(pid)
    rc = 0
    for v in r.get("viol", []):
        print("  violated: key=%s\n%s" % (v["key"], v.get("msg", "")))
        if v["key"] in known:
            print("KNOWN-FINDING: property=%s %s: %s" % (pid, v["key"], known[v["key"]]))
        else:
            rc = 1
    if rc:
        print("VIOLATION property=%s replay=%s" % (pid, os.path.abspath(path)))
    else:
        print("replay: property holds on this case (observed: %s)" % str(r.get("obs", "ok"))[:200])
    return rc
