#!/usr/bin/env python3
"""usage: seedmeta.py <seed name> <property> <detected-by: comma list of PIDs or 'none'> <detection summary>   (writes seeded/<name>/meta.json)"""
import json, os, sys
name, pid, by, summary = sys.argv[1:5]
d = os.path.join(os.path.dirname(os.path.dirname(os.path.abspath(__file__))), "seeded", name)
agent = {}
p = os.path.join(d, "meta.agent.json")
if os.path.exists(p):
    try:
        agent = json.load(open(p))
    except Exception:
        agent = {"raw": open(p).read()[:2000]}
meta = {
    "property": pid,
    "origin": "fresh sub-agent given only the property text and its own scratch git worktree of /repo (nothing from /verif)",
    "summary": agent.get("summary"),
    "needs_to_manifest": agent.get("needs"),
    "files": agent.get("files"),
    "confirmed_by_me": {
        "how": "tools/intake.sh in the scratch worktree: demo.py exits 0 on the clean tree and 1 with patch.diff applied; tools/run_baseline.py on the related test files reports 'missing 0' with the patch applied",
        "agent_baseline": agent.get("baseline_result"),
    },
    "checks_run": "tools/mutant.sh seeded/%s/patch.diff %s  (git apply to /repo, ./check <id> --tier quick, git checkout -- .)" % (name, " ".join(by.split(",")) if by != "none" else pid),
    "detected_by": [] if by == "none" else by.split(","),
    "detection": summary,
}
json.dump(meta, open(os.path.join(d, "meta.json"), "w"), indent=1)
if os.path.exists(p):
    os.remove(p)
print("wrote", os.path.join(d, "meta.json"))
