#!/usr/bin/env python3
import json,sys
for l in open('/verif/properties.jsonl'):
    p=json.loads(l)
    if p['id'] in sys.argv[1:]:
        print("==",p['id'],p['title']); print("STATEMENT:",p['statement']); print("QUANT:",p['quantifier']['text']); print("WHY:",p['why_tests_cant'])
        print("FILES:",p['anchors']['files']); 
        for m in p['anchors']['mechanism']: print("  MECH:",m['name'],'@',m['where'])
        for m in p['anchors'].get('state',[]): print("  STATE:",m)
        print("  OBS:",p['anchors'].get('observe_at'))
