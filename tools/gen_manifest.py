#!/venv/bin/python
"""Regenerate /verif/MANIFEST.json from the META dict of every property module in props/ (and validate it)."""
import glob, importlib, json, os, sys
ROOT = os.path.dirname(os.path.dirname(os.path.abspath(__file__)))
sys.path.insert(0, ROOT)
props = [json.loads(l) for l in open(os.path.join(ROOT, "properties.jsonl"))]
mods = {}
for f in sorted(glob.glob(os.path.join(ROOT, "props", "c[0-9][0-9]_*.py"))):
    name = os.path.basename(f)[:-3]
    mods[name[:3].upper()] = importlib.import_module("props." + name)
ENGINES = {
    "product": ("product explorer", "mc/runner.py", "complete Cartesian product over small sharp alphabets, every case executed on the real implementation against a reference model / differential oracle"),
    "bfs": ("history explorer (BFS)", "mc/bfs.py", "explicit-state breadth-first search whose transitions call the real setters / context managers; states canonicalised and deduplicated; reference model replayed in lock-step"),
    "preempt": ("preemption explorer", "mc/preempt.py", "runs the real dask graph up to a point with two ready abTEM tasks, parks one of them at its k-th call into abTEM code (sys.settrace) while the other runs to completion, for every k (bound: one preemption, two tasks, call granularity)"),
    "sched": ("controlled dask scheduler", "mc/dasksched.py", "owns the execution order of the real dask task graph: enumerates linear extensions (all, or all within a deviation bound) with a per-task mutation monitor"),
}
checks, na, serves = [], [], {k: [] for k in ENGINES}
for p in props:
    pid = p["id"]
    m = mods.get(pid)
    if m is None or not hasattr(m, "META"):
        na.append({"property_id": pid, "reason": "no check registered yet: the bounded-exhaustive design for it is in DESIGN.md section 4 (" + pid + ") but its module is not built/validated in this tree"})
        continue
    M = m.META
    for e in M.get("engines", ["product"]):
        serves[e].append(pid)
    checks.append({
        "property_id": pid,
        "quick_cmd": "./check %s --tier quick" % pid,
        "thorough_cmd": "./check %s --tier thorough" % pid,
        "evidence_file": "evidence/%s.json" % pid,
        "replay_cmd_template": "./check %s --replay {path}" % pid,
        "engine": ENGINES[M.get("engines", ["product"])[0]][0],
        "level_claimed": {"category": "model_checking", "text": M["text"], "design_ref": "DESIGN.md section 4, " + pid},
        "level_note": M["note"],
        "technique": M["technique"],
    })
man = {
    "version": 1,
    "setup_cmd": "./setup.sh",
    "hooks": {
        "guard": "ABTEM_VERIF",
        "enable": "no source hooks are needed: abTEM is an editable install, the checks import /repo's working tree directly; ./check exports ABTEM_VERIF=1 for uniformity",
        "baseline_off_cmd": "cd /repo && env -u ABTEM_VERIF /venv/bin/python -m pytest -ra -q -p no:cacheprovider --timeout=900 --continue-on-collection-errors",
        "source_commits": [],
        "add_only": True,
    },
    "engines": [{"name": ENGINES[k][0], "path": ENGINES[k][1], "serves_properties": serves[k], "kind_free_text": ENGINES[k][2]} for k in ENGINES],
    "checks": checks,
    "not_applicable": na,
    "notes": "All checks decide their property by exhaustive enumeration of a bounded space on the real implementation (model checking family). VERIF_SEED only selects representatives inside alphabet classes, never which cases run. Genuine defects: known_findings.json.",
}
json.dump(man, open(os.path.join(ROOT, "MANIFEST.json"), "w"), indent=1)
import jsonschema
jsonschema.validate(man, json.load(open("/root/.vp/MANIFEST.schema.json")))
print("MANIFEST.json: %d checks, %d not_applicable" % (len(checks), len(na)))
