#!/venv/bin/python
"""Run the pinned baseline suite in a repository directory (default /repo) with the hook guard OFF and
compare with BASELINE.json's stable_pass list.  usage: run_baseline.py [repo_dir]   exit 0 iff all stable tests pass"""
import json, os, subprocess, sys, tempfile, xml.etree.ElementTree as ET
repo = sys.argv[1] if len(sys.argv) > 1 else "/repo"
base = json.load(open("/root/.vp/BASELINE.json"))
fd, junit = tempfile.mkstemp(suffix=".xml"); os.close(fd)
env = dict(os.environ); env.pop("ABTEM_VERIF", None)
cmd = ["/venv/bin/python", "-m", "pytest", "-ra", "-q", "-p", "no:cacheprovider", "--timeout=900",
       "--continue-on-collection-errors", "--junitxml=" + junit] + sys.argv[2:]
p = subprocess.run(cmd, cwd=repo, env=env, stdout=subprocess.PIPE, stderr=subprocess.STDOUT, text=True)
passed = set()
for tc in ET.parse(junit).getroot().iter("testcase"):
    if not any(c.tag in ("failure", "error", "skipped") for c in tc):
        passed.add(tc.get("classname") + "::" + tc.get("name"))
os.remove(junit)
files = [a for a in sys.argv[2:] if a.endswith(".py")]
stable = base["stable_pass"]
if files:  # restrict the comparison to the test files that were run
    mods = tuple(f[:-3].replace("/", ".") + "::" for f in files)
    stable = [t for t in stable if t.startswith(mods)]
missing = [t for t in stable if t not in passed]
print(p.stdout.strip().splitlines()[-1])
print("stable_pass expected %d, passing now %d, missing %d" % (len(stable), len(stable) - len(missing), len(missing)))
for t in missing[:40]:
    print("  NOT PASSING:", t)
sys.exit(1 if missing else 0)
