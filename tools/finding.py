#!/usr/bin/env python3
"""Maintain /verif/known_findings.json by hand (never at check run time).
usage: finding.py open  <PID> <key> <what fails>
       finding.py fixed <PID> <key> <commit> <what failed>"""
import json, sys, os
path = os.path.join(os.path.dirname(os.path.dirname(os.path.abspath(__file__))), "known_findings.json")
d = json.load(open(path))
mode, pid, key = sys.argv[1:4]
d["findings"] = [e for e in d["findings"] if not (e["property"] == pid and e["key"] == key)]
if mode == "open":
    d["findings"].append({"property": pid, "key": key, "status": "open", "what": sys.argv[4]})
else:
    d["findings"].append({"property": pid, "key": key, "status": "fixed", "commit": sys.argv[4],
                          "what": "fixed: property=%s %s %s" % (pid, sys.argv[4], sys.argv[5])})
d["findings"].sort(key=lambda e: (e["property"], e["status"], e["key"]))
json.dump(d, open(path, "w"), indent=1, ensure_ascii=False)
