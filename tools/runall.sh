#!/bin/bash
# usage: tools/runall.sh <tier> <seed> [ids...]  -> runs the checks sequentially from fresh processes, prints one line per check
tier=${1:-quick}; seed=${2:-0}; shift 2 || true
ids="$@"; [ -n "$ids" ] || ids=$(seq -f "C%02g" 1 40)
cd "$(dirname "$0")/.."
echo "abtem from: $(/venv/bin/python -c 'import abtem,os;print(os.path.dirname(abtem.__file__))' 2>/dev/null | tail -1)  (PYTHONPATH=${PYTHONPATH:-})"
for i in $ids; do
  s=$(date +%s)
  out=$(VERIF_SEED=$seed ./check $i --tier $tier 2>&1); rc=$?
  e=$(( $(date +%s) - s ))
  echo "$i rc=$rc ${e}s known=$(echo "$out" | grep -c '^KNOWN-FINDING') viol=$(echo "$out" | grep -c '^VIOLATION') :: $(echo "$out" | tail -1 | cut -c1-200)"
  [ $rc -eq 0 ] || echo "$out" | grep -E "VIOLATION|key=|HARNESS" | head -8
done
