#!/bin/bash
# usage: tools/mkagent.sh <wt-id> <property id> [text describing ideas already taken]   -> creates /tmp/wt/<wt-id> (git worktree of /repo HEAD) and /root/scratch/prompt_<wt-id>.txt
set -eu
ID="$1"; PID="$2"; AVOID="${3:-}"
mkdir -p /tmp/wt /root/scratch; [ -f /root/scratch/run_baseline.py ] || cp /verif/tools/run_baseline.py /root/scratch/run_baseline.py
git -C /repo worktree add -q --detach /tmp/wt/$ID HEAD
mkdir -p /tmp/wt/$ID/MUTANT
/venv/bin/python - "$ID" "$PID" "$AVOID" <<'PY'
import json,sys
wid,pid,avoid=sys.argv[1:4]
for l in open('/verif/properties.jsonl'):
    p=json.loads(l)
    if p['id']==pid:
        json.dump(p,open('/tmp/wt/%s/MUTANT/property.json'%wid,'w'),indent=1)
        text="%s: %s\nSTATEMENT: %s\nQUANTIFIED OVER: %s\nWHY EXISTING TESTS CANNOT SETTLE IT: %s\nANCHORED IN: files %s; mechanisms %s"%(p['id'],p['title'],p['statement'],p['quantifier']['text'],p['why_tests_cant'],p['anchors']['files'],[m['name']+' @ '+m['where'] for m in p['anchors']['mechanism']])
        t=open('/verif/tools/agent_prompt.txt').read().replace('__ID__',wid).replace('__PROPERTY__',text).replace('__AVOID__',(' The following ideas are ALREADY TAKEN - do something different, in a different function: '+avoid) if avoid else '')
        open('/root/scratch/prompt_%s.txt'%wid,'w').write(t)
PY
echo /root/scratch/prompt_$ID.txt
