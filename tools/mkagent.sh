#!/bin/bash
# usage: tools/mkagent.sh <wt-id> <property id>   -> creates /tmp/wt/<wt-id> (git worktree of /repo HEAD) and /root/scratch/prompt_<wt-id>.txt
set -eu
ID="$1"; PID="$2"
mkdir -p /tmp/wt
git -C /repo worktree add -q --detach /tmp/wt/$ID HEAD
mkdir -p /tmp/wt/$ID/MUTANT
/venv/bin/python - "$ID" "$PID" <<'PY'
import json,sys
wid,pid=sys.argv[1:3]
for l in open('/verif/properties.jsonl'):
    p=json.loads(l)
    if p['id']==pid:
        json.dump(p,open('/tmp/wt/%s/MUTANT/property.json'%wid,'w'),indent=1)
        text="%s: %s\nSTATEMENT: %s\nQUANTIFIED OVER: %s\nWHY EXISTING TESTS CANNOT SETTLE IT: %s\nANCHORED IN: files %s; mechanisms %s"%(p['id'],p['title'],p['statement'],p['quantifier']['text'],p['why_tests_cant'],p['anchors']['files'],[m['name']+' @ '+m['where'] for m in p['anchors']['mechanism']])
        t=open('/root/scratch/agent_prompt.txt').read().replace('__ID__',wid).replace('__PROPERTY__',text)
        open('/root/scratch/prompt_%s.txt'%wid,'w').write(t)
PY
echo /root/scratch/prompt_$ID.txt
