#!/usr/bin/env python3
"""Regenerates the table of seeded changes between the SEEDTABLE markers of DESIGN.md from seeded/*/meta.json."""
import glob, json, os, re
root = os.path.dirname(os.path.dirname(os.path.abspath(__file__)))
rows = ["| seeded change | property | what was changed (sub-agent's words, shortened) | caught by | remark |", "|---|---|---|---|---|"]
for m in sorted(glob.glob(os.path.join(root, "seeded", "*", "meta.json"))):
    d = json.load(open(m))
    name = os.path.basename(os.path.dirname(m))
    s = re.sub(r"\s+", " ", d.get("short") or (d.get("summary") or "")).replace("|", "/")
    if len(s) > 230:
        s = s[:227] + "..."
    det = re.sub(r"\s+", " ", d.get("detection") or "").replace("|", "/")
    rem = "initially missed; check strengthened" if "MISSED" in det or "missed" in det else ""
    rows.append("| %s | %s | %s | %s | %s |" % (name, d["property"], s, ", ".join(d.get("detected_by") or ["—"]), rem))
p = os.path.join(root, "DESIGN.md")
t = open(p).read()
a, b = "<!-- SEEDTABLE:BEGIN -->", "<!-- SEEDTABLE:END -->"
new = a + "\n" + "\n".join(rows) + "\n" + b
if "@@SEEDTABLE@@" in t:
    t = t.replace("@@SEEDTABLE@@", new)
else:
    t = t[: t.index(a)] + new + t[t.index(b) + len(b):]
open(p, "w").write(t)
print(len(rows) - 2, "seeded changes listed")
