#!/bin/bash
# usage: tools/intake.sh <worktree id, e.g. C11> <seed name, e.g. C11-a> [extra test files ...]
# Confirms a sub-agent's seeded change in its scratch worktree (demo fails with it, passes without it, related stable tests pass),
# then stores it under /verif/seeded/<name>/ . Does not touch /repo.
set -u
ID="$1"; NAME="$2"; shift 2
W=/tmp/wt/$ID; M=$W/MUTANT
[ -f $M/patch.diff ] || { echo "no patch.diff"; exit 2; }
cd $W
git checkout -q -- abtem 2>/dev/null
git status --short -- abtem | head -3
echo "--- demo on clean tree"; /venv/bin/python MUTANT/demo.py > /tmp/intake_${ID}_clean.log 2>&1; rc_clean=$?; tail -2 /tmp/intake_${ID}_clean.log
git apply MUTANT/patch.diff || { echo "patch does not apply on clean tree"; exit 2; }
echo "--- demo on patched tree"; /venv/bin/python MUTANT/demo.py > /tmp/intake_${ID}_patched.log 2>&1; rc_patched=$?; tail -3 /tmp/intake_${ID}_patched.log
files=$(git diff --name-only -- abtem | tr '\n' ' ')
echo "--- changed: $files ($(git diff --stat -- abtem | tail -1))"
echo "--- baseline (related stable tests) on patched tree: $*"
/venv/bin/python /root/scratch/run_baseline.py $W "$@" 2>&1 | tail -2 > /tmp/intake_${ID}_base.log; cat /tmp/intake_${ID}_base.log
ok=1; [ $rc_clean -eq 0 ] || ok=0; [ $rc_patched -ne 0 ] || ok=0; grep -q "missing 0" /tmp/intake_${ID}_base.log || ok=0
if [ $ok -eq 1 ]; then
  mkdir -p /verif/seeded/$NAME; cp $M/patch.diff $M/demo.py /verif/seeded/$NAME/; cp $M/meta.json /verif/seeded/$NAME/meta.agent.json 2>/dev/null
  echo "CONFIRMED -> /verif/seeded/$NAME (demo clean rc=$rc_clean, patched rc=$rc_patched)"
else echo "NOT CONFIRMED (clean rc=$rc_clean patched rc=$rc_patched)"; fi
rm -f /tmp/intake_${ID}_*.log
