#!/bin/bash
# usage: tools/mutant.sh <patch.diff | revert:<commit>> <PID> [PID...]   -- applies a property-breaking change to /repo's
# working tree, runs the quick checks, and ALWAYS restores the tree.  Prints DETECTED/MISSED per property.
set -u
P="$1"; shift; case "$P" in revert:*) ;; /*) ;; *) P="$(pwd)/$P";; esac
cd /repo || exit 2
if ! git diff --quiet; then echo "repo working tree is dirty; refusing"; exit 2; fi
if [[ "$P" == revert:* ]]; then
  c="${P#revert:}"; git diff "$c^" "$c" | git apply -R || { echo "cannot revert $c"; exit 2; }
else
  git apply "$P" || { echo "patch does not apply"; exit 2; }
fi
trap 'cd /repo && git checkout -- . ' EXIT
cd /verif
for pid in "$@"; do
  out=$(./check "$pid" --tier quick 2>&1); rc=$?
  n=$(echo "$out" | grep -c '^VIOLATION')
  if [ $rc -eq 1 ] && [ "$n" -gt 0 ]; then echo "DETECTED $pid ($n violation keys): $(echo "$out" | grep 'key=' | head -2 | cut -c1-220)"; 
  elif [ $rc -eq 0 ]; then echo "MISSED $pid"; else echo "ERROR $pid rc=$rc: $(echo "$out" | tail -3)"; fi
done
git -C /verif checkout -- evidence 2>/dev/null
